/* OS model used by the C08 / C17 / C19 harnesses.  The library sources are
 * compiled through a wrapper that includes this header *after* the system
 * headers, so that the library's calls to malloc/free/mmap/mremap/munmap/open/
 * fstat/close/fopen/fwrite/fclose go to the vf_* functions below (no change to
 * /repo).  In the symbolic build they are models with nondeterministic
 * failures; in the replay build they wrap the real calls and inject the
 * failures / moves of the counterexample. */
#ifndef VF_OS_H
#define VF_OS_H
#ifndef _GNU_SOURCE
#define _GNU_SOURCE 1
#endif
#include <stdio.h>
#include <stdlib.h>
#include <string.h>
#include <stdint.h>
#include <stdbool.h>
#include <inttypes.h>
#include <fcntl.h>
#include <unistd.h>
#include <sys/mman.h>
#include <sys/stat.h>
#include <sys/types.h>

void *vf_malloc(size_t n);
void vf_free(void *p);
void *vf_mmap(void *addr, size_t len, int prot, int flags, int fd, off_t off);
void *vf_mremap(void *old, size_t oldlen, size_t newlen, int flags, ...);
int vf_munmap(void *p, size_t len);
int vf_open(const char *path, int flags, ...);
int vf_fstat(int fd, struct stat *st);
int vf_close(int fd);
FILE *vf_fopen(const char *path, const char *mode);
size_t vf_fwrite(const void *ptr, size_t size, size_t n, FILE *f);
int vf_fclose(FILE *f);
void *vf_memcpy(void *dst, const void *src, size_t n);
int vf_ferror(FILE *f);
int vf_fflush(FILE *f);

#ifdef VF_OS_REDIRECT
#define malloc vf_malloc
#define free vf_free
#define mmap vf_mmap
#define mremap vf_mremap
#define munmap vf_munmap
#define open vf_open
#define fstat vf_fstat
#define close vf_close
#define fopen vf_fopen
#define fwrite vf_fwrite
#define fclose vf_fclose
#define memcpy vf_memcpy
#undef ferror
#define ferror vf_ferror
#define fflush vf_fflush
#endif

/* fault schedule: index (1-based) of the call of each kind that fails, 0 = none */
enum { OS_MALLOC, OS_MMAP, OS_MREMAP, OS_MUNMAP, OS_OPEN, OS_FSTAT, OS_CLOSE, OS_FOPEN, OS_FWRITE, OS_FCLOSE, OS_NKIND };
extern unsigned os_fail_at[OS_NKIND];
extern unsigned os_calls[OS_NKIND];
extern int os_failed_any;           /* some injected failure actually happened */
extern unsigned os_mremap_moves;    /* 1: every successful mremap moves the mapping */
extern int os_last_prot;            /* protection requested for the last anonymous mapping */
extern unsigned os_short_write;     /* bytes fwrite delivers when it is made to fail (< requested) */

/* file model */
#ifndef OS_PAGE
#define OS_PAGE 8                   /* model page size (the library never mentions the page size) */
#endif
#ifndef OS_MAXFILE
#define OS_MAXFILE (3 * OS_PAGE)
#endif
extern unsigned os_file_size;       /* size of the one file that exists */
extern unsigned char os_file[OS_MAXFILE + 1];
extern int os_file_exists;
extern unsigned char *os_map_base;  /* current file mapping and the end of its last mapped page */
extern unsigned os_map_end;
extern int os_unmapped_ok;          /* munmap called exactly with the mapping */
extern unsigned char os_written[64]; /* what reached the "file" through fwrite */
extern unsigned os_written_n;
extern int os_fopen_live, os_fclose_ok;
#define OS_PREV_NATIVE 60
extern unsigned os_file_prev_len, os_file_len, os_file_pos;
extern unsigned os_anon_len;       /* true size of the managed code mapping */
unsigned char *os_code_base(void);  /* its current address (symbolic build) */
/* contents model of the code mappings: the byte at one nondeterministic logical offset */
extern unsigned os_probe_q;
extern unsigned char os_probe_ref;  /* the same byte on the reference instance (caller buffer) */
extern int os_probe_ref_set;
int os_code_write(unsigned char *dest, unsigned len, long *off, int *slot);
void os_probe_store(int slot, unsigned char v);
int os_probe_read(const unsigned char *base, unsigned char *out);

void os_schedule(int in_base);      /* binds the schedule from IN(in_base..) */
#define OS_SCHEDULE_INPUTS (OS_NKIND + 2)
#endif
