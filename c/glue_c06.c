/* C06 (API layer): a program's code is the concatenation of its lines' code,
 * whether it arrives in one call or split at a line boundary over two calls. */
#include "glue.h"
static uint8_t g_buf2[GBUF];

static void split_text(const char *t, int s, char *a, char *b) {
  /* a = first s lines of t, b = the rest */
  int i = 0, lines = 0, j = 0, k = 0;
  for (; i < KMAX * 64 + 7; i++) {
    if (t[i] == 0) break;
    if (lines < s) a[j++] = t[i]; else b[k++] = t[i];
    if (t[i] == '\n') lines++;
  }
  a[j] = 0; b[k] = 0;
}

void harness(void) {
  unsigned long n = IN(0), start = IN(1), mv = IN(2), sw = IN(3), nb = IN(4), s = IN(5);
#ifndef STARTMAX
#define STARTMAX GBUF
#endif
#ifdef NFIXED
  ASSUME(n == GBUF);
#endif
  ASSUME(start <= STARTMAX);
  ASSUME(n <= GBUF && start <= n && mv < 3 && sw < 2 && nb < 2);
  glue_fill(g_buf, g_shadow, GBUF);
  for (int i = 0; i < GBUF; i++) g_buf2[i] = g_shadow[i];
  assemblyline_t A = asm_create_instance(g_buf, (int)n), B = asm_create_instance(g_buf2, (int)n);
  ASSUME(A && B);
  asm_mov_imm(A, (enum asm_opt)mv); asm_sib_index_base_swap(A, (enum asm_opt)sw); asm_sib_no_base(A, (enum asm_opt)nb);
  asm_mov_imm(B, (enum asm_opt)mv); asm_sib_index_base_swap(B, (enum asm_opt)sw); asm_sib_no_base(B, (enum asm_opt)nb);
  glue_prog(0, 8, 0, A->assembly_opt);
  ASSUME(s <= (unsigned long)G_PROG[0].n);
  VF_REGION();
  /* one call */
  asm_set_offset(A, (int)start);
  g_base = g_buf; g_lo = (long)start; g_hi = (long)n;
  glue_begin(0);
  int rc = asm_assemble_str(A, G_PROG[0].text);
  uint8_t plain[KMAX * LMAX]; int fa;
  int tot = glue_plain(0, plain, &fa);
  if (rc == EXIT_SUCCESS) {
    CHECK(asm_get_offset(A) == (int)start + tot, "offset = start + total length of the lines' code");
    for (int j = 0; j < KMAX * LMAX; j++)
      if (j < tot) CHECK(g_buf[start + j] == plain[j], "code = concatenation of the lines' code, from the start offset");
#ifdef VF_CBMC
    unsigned j = nondet_uint(); __CPROVER_assume(j < GBUF);
    if (j < start || j >= start + (unsigned)tot) CHECK(g_buf[j] == g_shadow[j], "nothing else in the buffer changes");
#else
    for (unsigned j = 0; j < GBUF; j++) if (j < start || j >= start + (unsigned)tot) CHECK(g_buf[j] == g_shadow[j], "nothing else in the buffer changes");
#endif
    /* the same text split at line boundary s over two calls */
    static char t1[KMAX * 64 + 8], t2[KMAX * 64 + 8];
    split_text(G_PROG[0].text, (int)s, t1, t2);
    asm_set_offset(B, (int)start);
    g_base = g_buf2; g_lo = (long)start;
    glue_begin(0);
    int r1 = asm_assemble_str(B, t1);
    g_lo = asm_get_offset(B);
    int r2 = r1 == EXIT_SUCCESS ? asm_assemble_str(B, t2) : EXIT_FAILURE;
    CHECK(r1 == EXIT_SUCCESS && r2 == EXIT_SUCCESS, "the split program assembles when the whole program does");
    if (r1 == EXIT_SUCCESS && r2 == EXIT_SUCCESS) {
      CHECK(asm_get_offset(B) == asm_get_offset(A), "same final offset");
#ifdef VF_CBMC
      unsigned q = nondet_uint(); __CPROVER_assume(q < GBUF);
      CHECK(g_buf2[q] == g_buf[q], "same buffer contents whether fed in one call or split over two");
#else
      for (unsigned q = 0; q < GBUF; q++) CHECK(g_buf2[q] == g_buf[q], "same buffer contents whether fed in one call or split over two");
#endif
    }
  } else {
    CHECK(rc == EXIT_FAILURE, "documented return value");
  }
  WITNESS();
}
