/* Reference decoder, see x86dec.h.  Independent of /repo. */
#include "x86dec.h"

enum { M1 = 0, M0F, M0F38, M0F3A };
enum { PF_INT = 0, /* 66 = operand size; F2/F3 not allowed */
       PF_NP,      /* no 66/F2/F3 */
       PF_66, PF_F3, PF_F2 };
enum { MR_ANY = 0, MR_REG, MR_MEM, MR_NOMODRM };
enum { F_D64 = 1, F_CC = 2, F_ALU = 4, F_GRP1 = 8, F_GRP2 = 16, F_PLUSR = 32, F_EXACT2 = 64 /* second byte fixed in .digit2 */ };
enum xt {
  T_NONE = 0, T_Eb, T_Ev, T_Ew, T_Gb, T_Gv, T_Zb, T_Zv, T_AL, T_eAX, T_CL, T_ONE,
  T_Ib, T_Ibs, T_Iz, T_Iv, T_Jb, T_Jz, T_M, T_Mb, T_Mq, T_Mp,
  T_Pq, T_Qq, T_Vx, T_Wx, T_Wq, T_Ux, T_Vy, T_Wy, T_Hx, T_Hy, T_Ey, T_Gy, T_By, T_Mx
};

struct row {
  uint8_t map, opc, mask, pfx, vex;
  int8_t vexl, vexw;    /* -1 = any */
  int8_t digit;         /* /digit, -1 = none */
  uint8_t modreq;
  uint16_t op;
  uint8_t t[4];
  uint8_t flags;
  uint8_t byte2;        /* for F_EXACT2: full modrm byte value */
};

#define R(map, opc, mask, pfx, vex, l, w, digit, modreq, op, t0, t1, t2, t3, fl, b2) \
  { map, opc, mask, pfx, vex, l, w, digit, modreq, op, { t0, t1, t2, t3 }, fl, b2 }
#define INT(opc, digit, modreq, op, t0, t1, t2, fl) R(M1, opc, 0xff, PF_INT, 0, -1, -1, digit, modreq, op, t0, t1, t2, T_NONE, fl, 0)
#define INT0F(opc, digit, modreq, op, t0, t1, t2, fl) R(M0F, opc, 0xff, PF_INT, 0, -1, -1, digit, modreq, op, t0, t1, t2, T_NONE, fl, 0)
#define MMX(opc, op) R(M0F, opc, 0xff, PF_NP, 0, -1, -1, -1, MR_ANY, op, T_Pq, T_Qq, T_NONE, T_NONE, 0, 0)
#define SSE(opc, op) R(M0F, opc, 0xff, PF_66, 0, -1, -1, -1, MR_ANY, op, T_Vx, T_Wx, T_NONE, T_NONE, 0, 0)
#define AVX(opc, op) \
  R(M0F, opc, 0xff, PF_66, 1, 0, -1, -1, MR_ANY, op, T_Vx, T_Hx, T_Wx, T_NONE, 0, 0), \
  R(M0F, opc, 0xff, PF_66, 1, 1, -1, -1, MR_ANY, op, T_Vy, T_Hy, T_Wy, T_NONE, 0, 0)
#define AVX38(opc, op) \
  R(M0F38, opc, 0xff, PF_66, 1, 0, -1, -1, MR_ANY, op, T_Vx, T_Hx, T_Wx, T_NONE, 0, 0), \
  R(M0F38, opc, 0xff, PF_66, 1, 1, -1, -1, MR_ANY, op, T_Vy, T_Hy, T_Wy, T_NONE, 0, 0)
#define PACKED(opc, op) MMX(opc, op), SSE(opc, op), AVX(opc, op)

static const struct row ROWS[] = {
  /* --- one-byte map ------------------------------------------------- */
  R(M1, 0x00, 0xc7, PF_INT, 0, -1, -1, -1, MR_ANY, XOP_ADD, T_Eb, T_Gb, T_NONE, T_NONE, F_ALU, 0),
  R(M1, 0x01, 0xc7, PF_INT, 0, -1, -1, -1, MR_ANY, XOP_ADD, T_Ev, T_Gv, T_NONE, T_NONE, F_ALU, 0),
  R(M1, 0x02, 0xc7, PF_INT, 0, -1, -1, -1, MR_ANY, XOP_ADD, T_Gb, T_Eb, T_NONE, T_NONE, F_ALU, 0),
  R(M1, 0x03, 0xc7, PF_INT, 0, -1, -1, -1, MR_ANY, XOP_ADD, T_Gv, T_Ev, T_NONE, T_NONE, F_ALU, 0),
  R(M1, 0x04, 0xc7, PF_INT, 0, -1, -1, -1, MR_NOMODRM, XOP_ADD, T_AL, T_Ib, T_NONE, T_NONE, F_ALU, 0),
  R(M1, 0x05, 0xc7, PF_INT, 0, -1, -1, -1, MR_NOMODRM, XOP_ADD, T_eAX, T_Iz, T_NONE, T_NONE, F_ALU, 0),
  R(M1, 0x50, 0xf8, PF_INT, 0, -1, -1, -1, MR_NOMODRM, XOP_PUSH, T_Zv, T_NONE, T_NONE, T_NONE, F_D64 | F_PLUSR, 0),
  R(M1, 0x58, 0xf8, PF_INT, 0, -1, -1, -1, MR_NOMODRM, XOP_POP, T_Zv, T_NONE, T_NONE, T_NONE, F_D64 | F_PLUSR, 0),
  INT(0x68, -1, MR_NOMODRM, XOP_PUSH, T_Iz, T_NONE, T_NONE, F_D64),
  INT(0x6a, -1, MR_NOMODRM, XOP_PUSH, T_Ibs, T_NONE, T_NONE, F_D64),
  INT(0x69, -1, MR_ANY, XOP_IMUL, T_Gv, T_Ev, T_Iz, 0),
  INT(0x6b, -1, MR_ANY, XOP_IMUL, T_Gv, T_Ev, T_Ibs, 0),
  R(M1, 0x70, 0xf0, PF_INT, 0, -1, -1, -1, MR_NOMODRM, XOP_JCC, T_Jb, T_NONE, T_NONE, T_NONE, F_CC, 0),
  INT(0x80, -1, MR_ANY, XOP_ADD, T_Eb, T_Ib, T_NONE, F_GRP1),
  INT(0x81, -1, MR_ANY, XOP_ADD, T_Ev, T_Iz, T_NONE, F_GRP1),
  INT(0x83, -1, MR_ANY, XOP_ADD, T_Ev, T_Ibs, T_NONE, F_GRP1),
  INT(0x84, -1, MR_ANY, XOP_TEST, T_Eb, T_Gb, T_NONE, 0),
  INT(0x85, -1, MR_ANY, XOP_TEST, T_Ev, T_Gv, T_NONE, 0),
  INT(0x86, -1, MR_ANY, XOP_XCHG, T_Eb, T_Gb, T_NONE, 0),
  INT(0x87, -1, MR_ANY, XOP_XCHG, T_Ev, T_Gv, T_NONE, 0),
  INT(0x88, -1, MR_ANY, XOP_MOV, T_Eb, T_Gb, T_NONE, 0),
  INT(0x89, -1, MR_ANY, XOP_MOV, T_Ev, T_Gv, T_NONE, 0),
  INT(0x8a, -1, MR_ANY, XOP_MOV, T_Gb, T_Eb, T_NONE, 0),
  INT(0x8b, -1, MR_ANY, XOP_MOV, T_Gv, T_Ev, T_NONE, 0),
  INT(0x8d, -1, MR_MEM, XOP_LEA, T_Gv, T_M, T_NONE, 0),
  /* 0x90 handled in code: nop / xchg eAX,r */
  INT(0xa8, -1, MR_NOMODRM, XOP_TEST, T_AL, T_Ib, T_NONE, 0),
  INT(0xa9, -1, MR_NOMODRM, XOP_TEST, T_eAX, T_Iz, T_NONE, 0),
  R(M1, 0xb0, 0xf8, PF_INT, 0, -1, -1, -1, MR_NOMODRM, XOP_MOV, T_Zb, T_Ib, T_NONE, T_NONE, F_PLUSR, 0),
  R(M1, 0xb8, 0xf8, PF_INT, 0, -1, -1, -1, MR_NOMODRM, XOP_MOV, T_Zv, T_Iv, T_NONE, T_NONE, F_PLUSR, 0),
  INT(0xc0, -1, MR_ANY, XOP_ROL, T_Eb, T_Ib, T_NONE, F_GRP2),
  INT(0xc1, -1, MR_ANY, XOP_ROL, T_Ev, T_Ib, T_NONE, F_GRP2),
  INT(0xd0, -1, MR_ANY, XOP_ROL, T_Eb, T_ONE, T_NONE, F_GRP2),
  INT(0xd1, -1, MR_ANY, XOP_ROL, T_Ev, T_ONE, T_NONE, F_GRP2),
  INT(0xd2, -1, MR_ANY, XOP_ROL, T_Eb, T_CL, T_NONE, F_GRP2),
  INT(0xd3, -1, MR_ANY, XOP_ROL, T_Ev, T_CL, T_NONE, F_GRP2),
  INT(0xc3, -1, MR_NOMODRM, XOP_RET, T_NONE, T_NONE, T_NONE, 0),
  R(M1, 0xc6, 0xff, PF_INT, 0, -1, -1, -1, MR_REG, XOP_XABORT, T_Ib, T_NONE, T_NONE, T_NONE, F_EXACT2, 0xf8),
  R(M1, 0xc7, 0xff, PF_INT, 0, -1, -1, -1, MR_REG, XOP_XBEGIN, T_Jz, T_NONE, T_NONE, T_NONE, F_EXACT2, 0xf8),
  INT(0xc6, 0, MR_ANY, XOP_MOV, T_Eb, T_Ib, T_NONE, 0),
  INT(0xc7, 0, MR_ANY, XOP_MOV, T_Ev, T_Iz, T_NONE, 0),
  INT(0xe3, -1, MR_NOMODRM, XOP_JRCXZ, T_Jb, T_NONE, T_NONE, 0),
  INT(0xe8, -1, MR_NOMODRM, XOP_CALL, T_Jz, T_NONE, T_NONE, F_D64),
  INT(0xe9, -1, MR_NOMODRM, XOP_JMP, T_Jz, T_NONE, T_NONE, F_D64),
  INT(0xeb, -1, MR_NOMODRM, XOP_JMP, T_Jb, T_NONE, T_NONE, F_D64),
  INT(0xf6, 0, MR_ANY, XOP_TEST, T_Eb, T_Ib, T_NONE, 0),
  INT(0xf6, 2, MR_ANY, XOP_NOT, T_Eb, T_NONE, T_NONE, 0),
  INT(0xf6, 3, MR_ANY, XOP_NEG, T_Eb, T_NONE, T_NONE, 0),
  INT(0xf6, 4, MR_ANY, XOP_MUL, T_Eb, T_NONE, T_NONE, 0),
  INT(0xf6, 5, MR_ANY, XOP_IMUL, T_Eb, T_NONE, T_NONE, 0),
  INT(0xf6, 6, MR_ANY, XOP_DIV, T_Eb, T_NONE, T_NONE, 0),
  INT(0xf6, 7, MR_ANY, XOP_IDIV, T_Eb, T_NONE, T_NONE, 0),
  INT(0xf7, 0, MR_ANY, XOP_TEST, T_Ev, T_Iz, T_NONE, 0),
  INT(0xf7, 2, MR_ANY, XOP_NOT, T_Ev, T_NONE, T_NONE, 0),
  INT(0xf7, 3, MR_ANY, XOP_NEG, T_Ev, T_NONE, T_NONE, 0),
  INT(0xf7, 4, MR_ANY, XOP_MUL, T_Ev, T_NONE, T_NONE, 0),
  INT(0xf7, 5, MR_ANY, XOP_IMUL, T_Ev, T_NONE, T_NONE, 0),
  INT(0xf7, 6, MR_ANY, XOP_DIV, T_Ev, T_NONE, T_NONE, 0),
  INT(0xf7, 7, MR_ANY, XOP_IDIV, T_Ev, T_NONE, T_NONE, 0),
  INT(0xf8, -1, MR_NOMODRM, XOP_CLC, T_NONE, T_NONE, T_NONE, 0),
  INT(0xfe, 0, MR_ANY, XOP_INC, T_Eb, T_NONE, T_NONE, 0),
  INT(0xfe, 1, MR_ANY, XOP_DEC, T_Eb, T_NONE, T_NONE, 0),
  INT(0xff, 0, MR_ANY, XOP_INC, T_Ev, T_NONE, T_NONE, 0),
  INT(0xff, 1, MR_ANY, XOP_DEC, T_Ev, T_NONE, T_NONE, 0),
  INT(0xff, 2, MR_ANY, XOP_CALL, T_Ev, T_NONE, T_NONE, F_D64),
  INT(0xff, 3, MR_MEM, XOP_CALL, T_Mp, T_NONE, T_NONE, 0),
  INT(0xff, 4, MR_ANY, XOP_JMP, T_Ev, T_NONE, T_NONE, F_D64),
  INT(0xff, 5, MR_MEM, XOP_JMP, T_Mp, T_NONE, T_NONE, 0),
  INT(0xff, 6, MR_ANY, XOP_PUSH, T_Ev, T_NONE, T_NONE, F_D64),
  /* --- 0F map, integer ---------------------------------------------- */
  R(M0F, 0x01, 0xff, PF_NP, 0, -1, -1, -1, MR_REG, XOP_RDTSCP, T_NONE, T_NONE, T_NONE, T_NONE, F_EXACT2, 0xf9),
  R(M0F, 0x01, 0xff, PF_NP, 0, -1, -1, -1, MR_REG, XOP_XEND, T_NONE, T_NONE, T_NONE, T_NONE, F_EXACT2, 0xd5),
  INT0F(0x18, 0, MR_MEM, XOP_PREFETCHNTA, T_M, T_NONE, T_NONE, 0),
  INT0F(0x18, 1, MR_MEM, XOP_PREFETCHT0, T_M, T_NONE, T_NONE, 0),
  INT0F(0x18, 2, MR_MEM, XOP_PREFETCHT1, T_M, T_NONE, T_NONE, 0),
  INT0F(0x18, 3, MR_MEM, XOP_PREFETCHT2, T_M, T_NONE, T_NONE, 0),
  INT0F(0x1f, 0, MR_ANY, XOP_NOP, T_Ev, T_NONE, T_NONE, 0),
  INT0F(0x31, -1, MR_NOMODRM, XOP_RDTSC, T_NONE, T_NONE, T_NONE, 0),
  INT0F(0x33, -1, MR_NOMODRM, XOP_RDPMC, T_NONE, T_NONE, T_NONE, 0),
  INT0F(0xa2, -1, MR_NOMODRM, XOP_CPUID, T_NONE, T_NONE, T_NONE, 0),
  R(M0F, 0x40, 0xf0, PF_INT, 0, -1, -1, -1, MR_ANY, XOP_CMOVCC, T_Gv, T_Ev, T_NONE, T_NONE, F_CC, 0),
  R(M0F, 0x80, 0xf0, PF_INT, 0, -1, -1, -1, MR_NOMODRM, XOP_JCC, T_Jz, T_NONE, T_NONE, T_NONE, F_CC | F_D64, 0),
  R(M0F, 0x90, 0xf0, PF_INT, 0, -1, -1, -1, MR_ANY, XOP_SETCC, T_Eb, T_NONE, T_NONE, T_NONE, F_CC, 0),
  INT0F(0xa4, -1, MR_ANY, XOP_SHLD, T_Ev, T_Gv, T_Ib, 0),
  INT0F(0xa5, -1, MR_ANY, XOP_SHLD, T_Ev, T_Gv, T_CL, 0),
  INT0F(0xac, -1, MR_ANY, XOP_SHRD, T_Ev, T_Gv, T_Ib, 0),
  INT0F(0xad, -1, MR_ANY, XOP_SHRD, T_Ev, T_Gv, T_CL, 0),
  R(M0F, 0xae, 0xff, PF_NP, 0, -1, -1, 7, MR_MEM, XOP_CLFLUSH, T_M, T_NONE, T_NONE, T_NONE, 0, 0),
  R(M0F, 0xae, 0xff, PF_NP, 0, -1, -1, -1, MR_REG, XOP_LFENCE, T_NONE, T_NONE, T_NONE, T_NONE, F_EXACT2, 0xe8),
  R(M0F, 0xae, 0xff, PF_NP, 0, -1, -1, -1, MR_REG, XOP_MFENCE, T_NONE, T_NONE, T_NONE, T_NONE, F_EXACT2, 0xf0),
  R(M0F, 0xae, 0xff, PF_NP, 0, -1, -1, -1, MR_REG, XOP_SFENCE, T_NONE, T_NONE, T_NONE, T_NONE, F_EXACT2, 0xf8),
  INT0F(0xaf, -1, MR_ANY, XOP_IMUL, T_Gv, T_Ev, T_NONE, 0),
  INT0F(0xb6, -1, MR_ANY, XOP_MOVZX, T_Gv, T_Eb, T_NONE, 0),
  INT0F(0xb7, -1, MR_ANY, XOP_MOVZX, T_Gv, T_Ew, T_NONE, 0),
  /* --- 0F map, MMX/SSE ---------------------------------------------- */
  R(M0F, 0x6e, 0xff, PF_NP, 0, -1, -1, -1, MR_ANY, XOP_MOVD, T_Pq, T_Ey, T_NONE, T_NONE, 0, 0),
  R(M0F, 0x6e, 0xff, PF_66, 0, -1, -1, -1, MR_ANY, XOP_MOVD, T_Vx, T_Ey, T_NONE, T_NONE, 0, 0),
  R(M0F, 0x7e, 0xff, PF_NP, 0, -1, -1, -1, MR_ANY, XOP_MOVD, T_Ey, T_Pq, T_NONE, T_NONE, 0, 0),
  R(M0F, 0x7e, 0xff, PF_66, 0, -1, -1, -1, MR_ANY, XOP_MOVD, T_Ey, T_Vx, T_NONE, T_NONE, 0, 0),
  R(M0F, 0x7e, 0xff, PF_F3, 0, -1, -1, -1, MR_ANY, XOP_MOVQ, T_Vx, T_Wq, T_NONE, T_NONE, 0, 0),
  R(M0F, 0xd6, 0xff, PF_66, 0, -1, -1, -1, MR_ANY, XOP_MOVQ, T_Wq, T_Vx, T_NONE, T_NONE, 0, 0),
  R(M0F, 0x6c, 0xff, PF_66, 0, -1, -1, -1, MR_ANY, XOP_PUNPCKLQDQ, T_Vx, T_Wx, T_NONE, T_NONE, 0, 0),
  R(M0F, 0xe7, 0xff, PF_NP, 0, -1, -1, -1, MR_MEM, XOP_MOVNTQ, T_Mq, T_Pq, T_NONE, T_NONE, 0, 0),
  R(M0F, 0x73, 0xff, PF_66, 0, -1, -1, 3, MR_REG, XOP_PSRLDQ, T_Ux, T_Ib, T_NONE, T_NONE, 0, 0),
  R(M0F, 0xe6, 0xff, PF_F3, 0, -1, -1, -1, MR_ANY, XOP_CVTDQ2PD, T_Vx, T_Wq, T_NONE, T_NONE, 0, 0),
  R(M0F, 0xe6, 0xff, PF_F2, 0, -1, -1, -1, MR_ANY, XOP_CVTPD2DQ, T_Vx, T_Wx, T_NONE, T_NONE, 0, 0),
  SSE(0x5e, XOP_DIVPD), SSE(0x59, XOP_MULPD), SSE(0x58, XOP_ADDPD), SSE(0x5c, XOP_SUBPD),
  AVX(0x5e, XOP_DIVPD), AVX(0x59, XOP_MULPD), AVX(0x58, XOP_ADDPD), AVX(0x5c, XOP_SUBPD),
  PACKED(0xfc, XOP_PADDB), PACKED(0xfd, XOP_PADDW), PACKED(0xfe, XOP_PADDD), PACKED(0xd4, XOP_PADDQ),
  PACKED(0xdb, XOP_PAND), PACKED(0xdf, XOP_PANDN), PACKED(0xeb, XOP_POR), PACKED(0xef, XOP_PXOR),
  PACKED(0xf8, XOP_PSUBB), PACKED(0xf9, XOP_PSUBW), PACKED(0xfa, XOP_PSUBD), PACKED(0xfb, XOP_PSUBQ),
  PACKED(0xe4, XOP_PMULHUW), PACKED(0xe5, XOP_PMULHW), PACKED(0xd5, XOP_PMULLW), PACKED(0xf4, XOP_PMULUDQ),
  /* VEX moves */
  R(M0F, 0x10, 0xff, PF_66, 1, 0, -1, -1, MR_ANY, XOP_MOVUPD, T_Vx, T_Wx, T_NONE, T_NONE, 0, 0),
  R(M0F, 0x10, 0xff, PF_66, 1, 1, -1, -1, MR_ANY, XOP_MOVUPD, T_Vy, T_Wy, T_NONE, T_NONE, 0, 0),
  R(M0F, 0x11, 0xff, PF_66, 1, 0, -1, -1, MR_ANY, XOP_MOVUPD, T_Wx, T_Vx, T_NONE, T_NONE, 0, 0),
  R(M0F, 0x11, 0xff, PF_66, 1, 1, -1, -1, MR_ANY, XOP_MOVUPD, T_Wy, T_Vy, T_NONE, T_NONE, 0, 0),
  R(M0F, 0x6f, 0xff, PF_F3, 1, 0, -1, -1, MR_ANY, XOP_MOVDQU, T_Vx, T_Wx, T_NONE, T_NONE, 0, 0),
  R(M0F, 0x6f, 0xff, PF_F3, 1, 1, -1, -1, MR_ANY, XOP_MOVDQU, T_Vy, T_Wy, T_NONE, T_NONE, 0, 0),
  R(M0F, 0x7f, 0xff, PF_F3, 1, 0, -1, -1, MR_ANY, XOP_MOVDQU, T_Wx, T_Vx, T_NONE, T_NONE, 0, 0),
  R(M0F, 0x7f, 0xff, PF_F3, 1, 1, -1, -1, MR_ANY, XOP_MOVDQU, T_Wy, T_Vy, T_NONE, T_NONE, 0, 0),
  /* --- 0F38 ---------------------------------------------------------- */
  R(M0F38, 0x0b, 0xff, PF_NP, 0, -1, -1, -1, MR_ANY, XOP_PMULHRSW, T_Pq, T_Qq, T_NONE, T_NONE, 0, 0),
  R(M0F38, 0x0b, 0xff, PF_66, 0, -1, -1, -1, MR_ANY, XOP_PMULHRSW, T_Vx, T_Wx, T_NONE, T_NONE, 0, 0),
  R(M0F38, 0x40, 0xff, PF_66, 0, -1, -1, -1, MR_ANY, XOP_PMULLD, T_Vx, T_Wx, T_NONE, T_NONE, 0, 0),
  R(M0F38, 0x28, 0xff, PF_66, 0, -1, -1, -1, MR_ANY, XOP_PMULDQ, T_Vx, T_Wx, T_NONE, T_NONE, 0, 0),
  R(M0F38, 0x2a, 0xff, PF_66, 0, -1, -1, -1, MR_MEM, XOP_MOVNTDQA, T_Vx, T_Mx, T_NONE, T_NONE, 0, 0),
  R(M0F38, 0xf6, 0xff, PF_66, 0, -1, -1, -1, MR_ANY, XOP_ADCX, T_Gy, T_Ey, T_NONE, T_NONE, 0, 0),
  R(M0F38, 0xf6, 0xff, PF_F3, 0, -1, -1, -1, MR_ANY, XOP_ADOX, T_Gy, T_Ey, T_NONE, T_NONE, 0, 0),
  AVX38(0x0b, XOP_PMULHRSW), AVX38(0x40, XOP_PMULLD), AVX38(0x28, XOP_PMULDQ),
  R(M0F38, 0x36, 0xff, PF_66, 1, 1, 0, -1, MR_ANY, XOP_PERMD, T_Vy, T_Hy, T_Wy, T_NONE, 0, 0),
  R(M0F38, 0xf7, 0xff, PF_NP, 1, 0, -1, -1, MR_ANY, XOP_BEXTR, T_Gy, T_Ey, T_By, T_NONE, 0, 0),
  R(M0F38, 0xf7, 0xff, PF_66, 1, 0, -1, -1, MR_ANY, XOP_SHLX, T_Gy, T_Ey, T_By, T_NONE, 0, 0),
  R(M0F38, 0xf7, 0xff, PF_F3, 1, 0, -1, -1, MR_ANY, XOP_SARX, T_Gy, T_Ey, T_By, T_NONE, 0, 0),
  R(M0F38, 0xf7, 0xff, PF_F2, 1, 0, -1, -1, MR_ANY, XOP_SHRX, T_Gy, T_Ey, T_By, T_NONE, 0, 0),
  R(M0F38, 0xf5, 0xff, PF_NP, 1, 0, -1, -1, MR_ANY, XOP_BZHI, T_Gy, T_Ey, T_By, T_NONE, 0, 0),
  R(M0F38, 0xf6, 0xff, PF_F2, 1, 0, -1, -1, MR_ANY, XOP_MULX, T_Gy, T_By, T_Ey, T_NONE, 0, 0),
  /* --- 0F3A ---------------------------------------------------------- */
  R(M0F3A, 0x46, 0xff, PF_66, 1, 1, 0, -1, MR_ANY, XOP_PERM2I128, T_Vy, T_Hy, T_Wy, T_Ib, 0, 0),
  R(M0F3A, 0x06, 0xff, PF_66, 1, 1, 0, -1, MR_ANY, XOP_PERM2F128, T_Vy, T_Hy, T_Wy, T_Ib, 0, 0),
  R(M0F3A, 0xf0, 0xff, PF_F2, 1, 0, -1, -1, MR_ANY, XOP_RORX, T_Gy, T_Ey, T_Ib, T_NONE, 0, 0),
};
#define NROWS ((int)(sizeof(ROWS) / sizeof(ROWS[0])))

struct dstate {
  const uint8_t *p;
  int avail, pos;
  int bad;
};

static uint8_t fetch(struct dstate *s) {
  if (s->pos >= s->avail || s->pos >= 15) { s->bad = 1; return 0; }
  return s->p[s->pos++];
}

static int64_t fetch_s(struct dstate *s, int bytes) {
  uint64_t v = 0;
  for (int i = 0; i < 8; i++) {
    if (i < bytes) v |= (uint64_t)fetch(s) << (8 * i);
  }
  if (bytes < 8) {
    uint64_t sign = (uint64_t)1 << (8 * bytes - 1);
    if (v & sign) v |= ~(((uint64_t)1 << (8 * bytes)) - 1);
  }
  return (int64_t)v;
}

static void set_reg(struct xopd *o, uint8_t rc, uint8_t num) {
  o->kind = XK_REG; o->rc = rc; o->num = num;
}

static uint8_t gpr_class(int size) {
  return size == 8 ? RC_GPR8 : size == 16 ? RC_GPR16 : size == 32 ? RC_GPR32 : RC_GPR64;
}

static void set_gpr(struct xopd *o, int size, uint8_t num, int has_rex) {
  if (size == 8 && !has_rex && num >= 4 && num < 8) set_reg(o, RC_GPR8H, num);
  else set_reg(o, gpr_class(size), num);
}

static int row_can_be(const struct row *q, int want) {
  int op = q->op;
  if (q->flags & (F_ALU | F_GRP1)) return want >= XOP_ADD && want <= XOP_CMP;
  if (q->flags & F_GRP2) return want >= XOP_ROL && want <= XOP_SAR;
  if (q->flags & F_CC) return want >= op && want < op + 16;
  if (op == XOP_MOVD) return want == XOP_MOVD || want == XOP_MOVQ;
  return op == want;
}

int x86dec(const uint8_t *p, int avail, struct xinsn *out) { return x86dec_want(p, avail, out, 0); }

int x86dec_want(const uint8_t *p, int avail, struct xinsn *out, int want) {
  struct dstate s; s.p = p; s.avail = avail; s.pos = 0; s.bad = 0;
  struct xinsn z = {0};
  *out = z;
  int p66 = 0, p67 = 0, rep = 0, npfx = 0;
  uint8_t b = fetch(&s);
  /* legacy prefixes (the subset never uses segment, lock) */
  while (npfx < 4 && (b == 0x66 || b == 0x67 || b == 0xf2 || b == 0xf3)) {
    if (b == 0x66) p66 = 1; else if (b == 0x67) p67 = 1; else rep = b;
    npfx++;
    b = fetch(&s);
  }
  if (s.bad) return -1;
  int rex = 0;
  if ((b & 0xf0) == 0x40) { rex = b; b = fetch(&s); }
  int W = (rex >> 3) & 1, Rx = (rex >> 2) & 1, Xx = (rex >> 1) & 1, Bx = rex & 1;
  int vex = 0, L = 0, vvvv = 0, pp = 0, map = M1;
  if (b == 0xc5 || b == 0xc4) {
    if (rex || p66 || rep) return -1; /* #UD */
    vex = 1;
    if (b == 0xc5) {
      uint8_t v1 = fetch(&s);
      Rx = !((v1 >> 7) & 1); vvvv = (~(v1 >> 3)) & 0xf; L = (v1 >> 2) & 1; pp = v1 & 3; map = M0F;
    } else {
      uint8_t v1 = fetch(&s), v2 = fetch(&s);
      Rx = !((v1 >> 7) & 1); Xx = !((v1 >> 6) & 1); Bx = !((v1 >> 5) & 1);
      int mm = v1 & 0x1f;
      if (mm == 1) map = M0F; else if (mm == 2) map = M0F38; else if (mm == 3) map = M0F3A; else return -1;
      W = (v2 >> 7) & 1; vvvv = (~(v2 >> 3)) & 0xf; L = (v2 >> 2) & 1; pp = v2 & 3;
    }
    b = fetch(&s);
  } else if (b == 0x0f) {
    b = fetch(&s); map = M0F;
    if (b == 0x38) { b = fetch(&s); map = M0F38; }
    else if (b == 0x3a) { b = fetch(&s); map = M0F3A; }
  }
  if (s.bad) return -1;
  /* effective mandatory-prefix class */
  int pcls;
  if (vex) pcls = pp == 0 ? PF_NP : pp == 1 ? PF_66 : pp == 2 ? PF_F3 : PF_F2;
  else pcls = rep == 0xf3 ? PF_F3 : rep == 0xf2 ? PF_F2 : p66 ? PF_66 : PF_NP;

  out->vex = vex; out->vexl = L; out->rexw = W; out->has_rex = rex != 0; out->p66 = p66; out->p67 = p67;

  /* 0x90: nop, or xchg rAX, r */
  if (map == M1 && !vex && (b & 0xf8) == 0x90 && !rep) {
    int osz = W ? 64 : p66 ? 16 : 32;
    int num = (b & 7) | (Bx << 3);
    if (num == 0 && want != XOP_XCHG) { out->op = XOP_NOP; out->nopd = 0; }
    else {
      /* 90 with the accumulator twice: architecturally a NOP; it equals
       * "xchg acc, acc" for 16- and 64-bit operands but NOT for eax (no
       * zero-extension of rax), which the caller can tell from nop90 */
      out->nop90 = num == 0;
      out->op = XOP_XCHG; out->nopd = 2; out->osize = osz;
      set_gpr(&out->opd[0], osz, 0, rex != 0);
      set_gpr(&out->opd[1], osz, num, rex != 0);
    }
    out->len = s.pos;
    return s.pos;
  }

  /* peek modrm (needed for /digit selection) */
  uint8_t modrm = (s.pos < avail && s.pos < 15) ? p[s.pos] : 0;
  int mod = modrm >> 6, regf = (modrm >> 3) & 7, rmf = modrm & 7;

  /* Rows are pairwise disjoint (checked natively by tools/validate_x86dec), so
   * restricting the scan to the rows that can yield `want` decides the same
   * predicate "these bytes are one instruction whose operation is want"; it
   * keeps the symbolic scan to a handful of rows. */
  struct row sel = ROWS[0];
  int found = 0;
  for (int i = 0; i < NROWS; i++) {
    const struct row *q = &ROWS[i];
    if (want && !row_can_be(q, want)) continue;
    if (q->map != map || (b & q->mask) != q->opc || q->vex != vex) continue;
    if (q->pfx == PF_INT) { if (rep) continue; }
    else if (q->pfx != pcls) continue;
    if (vex && q->vexl >= 0 && q->vexl != L) continue;
    if (vex && q->vexw >= 0 && q->vexw != W) continue;
    if (q->flags & F_EXACT2) { if (modrm != q->byte2) continue; }
    else {
      if (q->digit >= 0 && q->digit != regf) continue;
      if (q->modreq == MR_REG && mod != 3) continue;
      if (q->modreq == MR_MEM && mod == 3) continue;
    }
    if (!found) sel = *q;
    found++;
  }
  if (!found) return -1;
  out->nrows = found;
  const struct row *r = &sel;
  int is_int = r->pfx == PF_INT;
  int osz = 0;
  if (is_int) {
    if (r->flags & F_D64) osz = p66 ? 16 : 64; else osz = W ? 64 : p66 ? 16 : 32;
  }
  uint16_t op = r->op;
  if (r->flags & F_CC) op += b & 0xf;
  if (r->flags & F_ALU) op = XOP_ADD + ((b >> 3) & 7);
  if (r->flags & (F_GRP1 | F_GRP2)) op += regf;
  if (op == XOP_SAL_ALIAS) op = XOP_SHL;
  if (op == XOP_MOVD && W) op = XOP_MOVQ; /* 6E/7E with REX.W is movq */
  out->op = op;

  int need_modrm = r->modreq != MR_NOMODRM;
  struct xopd mem = {0};
  int have_mem = 0;
  if (need_modrm) {
    (void)fetch(&s);
    if (mod != 3 && !(r->flags & F_EXACT2)) {
      have_mem = 1;
      mem.kind = XK_MEM; mem.asize = p67 ? 32 : 64; mem.scale = 1;
      if (rmf == 4) {
        uint8_t sib = fetch(&s);
        int ss = sib >> 6, ix = ((sib >> 3) & 7) | (Xx << 3), bs = (sib & 7) | (Bx << 3);
        if (ix != 4) { mem.has_index = 1; mem.index = ix; mem.scale = 1 << ss; }
        if ((sib & 7) == 5 && mod == 0) { mem.has_base = 0; mem.disp = fetch_s(&s, 4); }
        else { mem.has_base = 1; mem.base = bs; }
      } else if (rmf == 5 && mod == 0) {
        mem.riprel = 1; mem.disp = fetch_s(&s, 4);
      } else {
        mem.has_base = 1; mem.base = rmf | (Bx << 3);
      }
      if (mod == 1) mem.disp = fetch_s(&s, 1);
      else if (mod == 2) mem.disp = fetch_s(&s, 4);
    }
  }
  int byteop = 0;
  int n = 0;
  for (int k = 0; k < 4; k++) {
    uint8_t t = r->t[k];
    if (t == T_NONE) continue;
    struct xopd *o = &out->opd[n++];
    int rm_num = rmf | (Bx << 3), reg_num = regf | (Rx << 3);
    switch (t) {
    case T_Eb: case T_Ev: case T_Ew: case T_Ey: {
      int sz = t == T_Eb ? 8 : t == T_Ew ? 16 : t == T_Ey ? (W ? 64 : 32) : osz;
      if (t == T_Eb && k == 0) byteop = 1;
      if (have_mem) { *o = mem; o->msize = sz; } else set_gpr(o, sz, rm_num, rex != 0 || vex);
      break; }
    case T_Gb: set_gpr(o, 8, reg_num, rex != 0); if (k == 0) byteop = 1; break;
    case T_Gv: set_gpr(o, osz, reg_num, rex != 0); break;
    case T_Gy: set_gpr(o, W ? 64 : 32, reg_num, 1); break;
    case T_By: set_gpr(o, W ? 64 : 32, vvvv, 1); break;
    case T_Zb: set_gpr(o, 8, (b & 7) | (Bx << 3), rex != 0); byteop = 1; break;
    case T_Zv: set_gpr(o, osz, (b & 7) | (Bx << 3), rex != 0); break;
    case T_AL: set_gpr(o, 8, 0, rex != 0); byteop = 1; break;
    case T_eAX: set_gpr(o, osz, 0, rex != 0); break;
    case T_CL: set_gpr(o, 8, 1, 1); break;
    case T_ONE: o->kind = XK_IMM; o->imm = 1; o->immw = 0; break;
    case T_Ib: o->kind = XK_IMM; o->imm = fetch_s(&s, 1); o->immw = 8; break;
    case T_Ibs: o->kind = XK_IMM; o->imm = fetch_s(&s, 1); o->immw = 8; break;
    case T_Iz: o->kind = XK_IMM;
      if (osz == 16) { o->imm = fetch_s(&s, 2); o->immw = 16; } else { o->imm = fetch_s(&s, 4); o->immw = 32; }
      break;
    case T_Iv: o->kind = XK_IMM;
      if (osz == 16) { o->imm = fetch_s(&s, 2); o->immw = 16; }
      else if (osz == 32) { o->imm = fetch_s(&s, 4); o->immw = 32; }
      else { o->imm = fetch_s(&s, 8); o->immw = 64; }
      break;
    case T_Jb: o->kind = XK_REL; o->imm = fetch_s(&s, 1); o->immw = 8; break;
    case T_Jz: o->kind = XK_REL;
      if (p66) return -1; /* 16-bit relative branches truncate RIP; not in the subset */
      o->imm = fetch_s(&s, 4); o->immw = 32; break;
    case T_M: if (!have_mem) return -1; *o = mem; o->msize = 0; break;
    case T_Mb: if (!have_mem) return -1; *o = mem; o->msize = 8; break;
    case T_Mq: if (!have_mem) return -1; *o = mem; o->msize = 64; break;
    case T_Mx: if (!have_mem) return -1; *o = mem; o->msize = 128; break;
    case T_Mp: if (!have_mem) return -1; *o = mem; o->msize = W ? 80 : p66 ? 32 : 48; out->far = 1; break;
    case T_Pq: set_reg(o, RC_MM, regf); break;
    case T_Qq: if (have_mem) { *o = mem; o->msize = 64; } else set_reg(o, RC_MM, rmf); break;
    case T_Vx: set_reg(o, RC_XMM, reg_num); break;
    case T_Vy: set_reg(o, RC_YMM, reg_num); break;
    case T_Wx: if (have_mem) { *o = mem; o->msize = 128; } else set_reg(o, RC_XMM, rm_num); break;
    case T_Wq: if (have_mem) { *o = mem; o->msize = 64; } else set_reg(o, RC_XMM, rm_num); break;
    case T_Wy: if (have_mem) { *o = mem; o->msize = 256; } else set_reg(o, RC_YMM, rm_num); break;
    case T_Ux: if (have_mem) return -1; set_reg(o, RC_XMM, rm_num); break;
    case T_Hx: set_reg(o, RC_XMM, vvvv); break;
    case T_Hy: set_reg(o, RC_YMM, vvvv); break;
    default: return -1;
    }
  }
  /* VEX forms without a vvvv operand require vvvv = 1111b */
  if (vex) {
    int uses_v = 0;
    for (int k = 0; k < 4; k++) if (r->t[k] == T_Hx || r->t[k] == T_Hy || r->t[k] == T_By) uses_v = 1;
    if (!uses_v && vvvv != 0) return -1;
  }
  out->nopd = n;
  out->osize = is_int ? (byteop ? 8 : osz) : 0;
  if (op == XOP_MOVZX) out->osize = osz;
  if (op == XOP_JRCXZ && p67) return -1; /* jecxz is a different instruction */
  if (s.bad) return -1;
  out->len = s.pos;
  return s.pos;
}
