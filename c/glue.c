#include "glue.h"
#include "enums.h"

struct aprog G_PROG[NPROG];
uint8_t g_buf[GBUF], g_shadow[GBUF];
int g_cur_prog, g_cur_line;
long g_lo, g_hi;
uint8_t *g_base;
int g_range_violations, g_asm_calls;
long g_pos[NPROG][KMAX];
int g_need_reserve; long g_buflen;

void glue_fill(uint8_t *b, uint8_t *shadow, int n) {
  for (int i = 0; i < n; i++) {
#ifdef VF_CBMC
    b[i] = nondet_uchar();
#else
    b[i] = (uint8_t)(0xa0 + (i * 11) % 83);
#endif
    if (shadow) shadow[i] = b[i];
  }
}

void glue_begin(int p) { g_cur_prog = p; g_cur_line = 0; for (int i = 0; i < KMAX; i++) g_pos[p][i] = -1; }

int glue_count_instr(int p) {
  int c = 0;
  for (int i = 0; i < KMAX; i++) {
    if (i >= G_PROG[p].n) continue;
    if (G_PROG[p].l[i].kind == LK_FAIL) return c;
    if (G_PROG[p].l[i].kind == LK_INSTR) c++;
  }
  return c;
}

int glue_plain(int p, uint8_t *out, int *fails_at) {
  int pos = 0, failed = 0;
  *fails_at = -1;
  for (int i = 0; i < KMAX; i++) {
    if (i >= G_PROG[p].n || failed) continue;
    struct aline *l = &G_PROG[p].l[i];
    if (l->kind == LK_FAIL) { failed = 1; *fails_at = i; continue; }
    if (l->kind == LK_INSTR)
      for (int j = 0; j < LMAX; j++)
        if (j < l->len) out[pos++] = l->sig[j];
  }
  return pos;
}

#ifndef VF_CBMC
static const char *const REAL_BY_LEN[16] = {
  0, "ret", "jmp 0x4", "mov rax, rcx", "add rcx, 1", "mov eax, 0x11223344", "add ebx, 0x11223344",
  "add rbx, 0x11223344", "mov qword [rax+0x10], 0x11223344", "mov qword [rax+rcx*2+0x10], 0x11223344",
  "mov rax, 0x1122334455667788", "mov qword [rax+0x11223344], 0x11223344",
  "mov qword [rax+rcx*2+0x11223344], 0x11223344", "imul rax, [eax+ecx*2+0x11223344], 0x11223344", 0, 0 };
static const char *const SKIPS[4] = { "; only a comment", "", "label_x:", "  section .text" };
#endif

void glue_prog(int p, int in_base, int allow_fail, uint8_t opt) {
  struct aprog *P = &G_PROG[p];
  unsigned long n = IN(in_base);
  ASSUME(n <= KMAX);
  P->n = (int)n;
  P->text[0] = 0;
  for (int i = 0; i < KMAX; i++) {
    unsigned long k = IN(in_base + 1 + 2 * i), len = IN(in_base + 2 + 2 * i);
    ASSUME(k <= (allow_fail ? 2 : 1));
    ASSUME(len >= 1 && len <= LMAX);
    P->l[i].kind = (uint8_t)k; P->l[i].len = (uint8_t)len;
#ifdef VF_CBMC
    for (int j = 0; j < LMAX; j++) P->l[i].sig[j] = nondet_uchar();
#endif
  }
#ifdef VF_CBMC
  (void)opt;
  for (int i = 0; i < KMAX; i++)
    if (i < P->n) { P->text[2 * i] = 'x'; P->text[2 * i + 1] = '\n'; P->text[2 * i + 2] = 0; }
#else
  for (int i = 0; i < P->n; i++) {
    struct aline *l = &P->l[i];
    const char *t;
    if (l->kind == LK_SKIP) t = SKIPS[(i + p) % 4];
    else if (l->kind == LK_FAIL) t = "bogus 1";
    else {
      t = REAL_BY_LEN[l->len];
      if (!t) { printf("CANNOT-CONCRETISE instruction of length %d\n", l->len); exit(4); }
      /* signature = what the real library emits for this line alone */
      static uint8_t tmp[64];
      assemblyline_t a = asm_create_instance(tmp, 64);
      a->assembly_opt = opt;
      char one[80]; snprintf(one, sizeof one, "%s\n", t);
      if (asm_assemble_str(a, one) != EXIT_SUCCESS || asm_get_offset(a) != l->len) {
        printf("CANNOT-CONCRETISE '%s' is not %d bytes here\n", t, l->len); exit(4);
      }
      memcpy(l->sig, tmp, l->len);
      asm_destroy_instance(a);
    }
    strcat(P->text, t); strcat(P->text, "\n");
  }
  printf("PROGRAM %d:\n%s", p, P->text);
#endif
}

#ifdef VF_CBMC
#ifdef GLUE_MANAGED
extern unsigned os_probe_q; extern unsigned char os_probe_ref; extern int os_probe_ref_set;
int os_code_write(unsigned char *dest, unsigned len, long *off, int *slot);
void os_probe_store(int slot, unsigned char v);
#endif
/* replaces the static str_to_instr of parser.c (goto-instrument --replace-calls) */
int stub_str_to_instr(struct instr *ins, const char s[], int *read_len) {
  struct aprog *P = &G_PROG[g_cur_prog];
  (void)s;
  *read_len = 2;
  int i = g_cur_line++;
  __CPROVER_assume(i < KMAX);
  if (P->l[i].kind == LK_FAIL) return EXIT_FAILURE;
  ins->key = P->l[i].kind == LK_SKIP ? SKIP : 100;
  ins->cons = (unsigned long)i;
  return EXIT_SUCCESS;
}

/* replaces assemble_asm */
unsigned int stub_assemble_asm(struct instr *ins, uint8_t *dest) {
  struct aprog *P = &G_PROG[g_cur_prog];
  int i = (int)ins->cons;
  __CPROVER_assume(i >= 0 && i < KMAX);
  unsigned len = P->l[i].len;
  g_asm_calls++;
#ifdef GLUE_MANAGED
  /* library-managed buffer: the permitted range is a live mapping of the OS
   * model (a stale address after a moving mremap is not); the model also keeps
   * the contents of one nondeterministically chosen byte of it */
  if (g_base == NULL) {
    long offm = -1; int slot = 0;
    int okm = os_code_write(dest, len, &offm, &slot);
    CHECK(okm, "an instruction is written only inside the current managed mapping (never through a stale address)");
    if (!okm) return len;
    g_pos[g_cur_prog][i] = offm;
    if (os_probe_q >= (unsigned long)offm && os_probe_q < (unsigned long)offm + len)
      os_probe_store(slot, P->l[i].sig[os_probe_q - (unsigned long)offm]);
    return len;
  }
#endif
  long off = (long)(dest - g_base);
  int ok = __CPROVER_same_object(dest, g_base) && off >= g_lo && off + (long)len <= g_hi;
  CHECK(ok, "an instruction is written only inside the attached buffer, at or after the call's start offset");
  if (!ok) { g_range_violations++; return len; }
#ifdef GLUE_MANAGED
  /* the reference instance: remember the byte at the OS model's probe offset */
  if (os_probe_q >= (unsigned long)off && os_probe_q < (unsigned long)off + len) {
    os_probe_ref = P->l[i].sig[os_probe_q - (unsigned long)off];
    os_probe_ref_set = 1;
  }
#endif
  if (g_need_reserve)
    CHECK(off + 20 <= g_buflen, "an instruction is written only while the documented 20 reserve bytes remain");
  g_pos[g_cur_prog][i] = off;
#if defined(GLUE_TOUCH)
  dest[0] = P->l[i].sig[0];
  dest[len - 1] = P->l[i].sig[LMAX - 1];
#elif !defined(GLUE_NOWRITE)
  /* queries about positions and lengths only (GLUE_NOWRITE) skip the byte
   * copy: symbolic-offset array stores dominate the formula size */
  for (unsigned j = 0; j < LMAX; j++)
    if (j < len) dest[j] = P->l[i].sig[j];
#endif
  return len;
}
#endif

/* the Intel-recommended multi-byte NOPs (SDM vol. 2, NOP), written here
 * independently of the library's table */
static const uint8_t NOPREF[12][11] = {
  {0}, {0x90}, {0x66, 0x90}, {0x0f, 0x1f, 0x00}, {0x0f, 0x1f, 0x40, 0x00}, {0x0f, 0x1f, 0x44, 0x00, 0x00},
  {0x66, 0x0f, 0x1f, 0x44, 0x00, 0x00}, {0x0f, 0x1f, 0x80, 0x00, 0x00, 0x00, 0x00},
  {0x0f, 0x1f, 0x84, 0x00, 0x00, 0x00, 0x00, 0x00}, {0x66, 0x0f, 0x1f, 0x84, 0x00, 0x00, 0x00, 0x00, 0x00},
  {0x66, 0x66, 0x0f, 0x1f, 0x84, 0x00, 0x00, 0x00, 0x00, 0x00},
  {0x66, 0x66, 0x66, 0x0f, 0x1f, 0x84, 0x00, 0x00, 0x00, 0x00, 0x00} };

static int nop_is(const uint8_t *b, int len) {
  if (len < 1 || len > 11) return 0;
  for (int j = 0; j < 11; j++)
    if (j < len && b[j] != NOPREF[len][j]) return 0;
  return 1;
}

/* b[0..g) is a run of one or two recommended NOPs (g <= 22) */
int glue_is_nop_run(const uint8_t *b, int g) {
  if (g == 0) return 1;
  if (g <= 11 && nop_is(b, g)) return 1;
  for (int a = 1; a <= 11; a++)
    if (g - a >= 1 && g - a <= 11 && nop_is(b, a) && nop_is(b + a, g - a)) return 1;
  return 0;
}

/* where did line i of program p end up, searching from position from */
long glue_find(int p, int i, const uint8_t *buf, long from, long limit) {
#ifdef VF_CBMC
  (void)buf; (void)from; (void)limit;
  return g_pos[p][i];
#else
  struct aline *l = &G_PROG[p].l[i];
  for (long g = 0; from + g + l->len <= limit && g < 64; g++)
    if (glue_is_nop_run(buf + from, (int)g) && !memcmp(buf + from + g, l->sig, l->len)) return from + g;
  return -1;
#endif
}
