#include "enc.h"
#include "enums.h"
#include "common.h"

unsigned VF_SYM[VF_NSLOT];
unsigned long VF_NUM[VF_NNUM];
uint8_t VF_NUMDEC[VF_NNUM];
uint8_t vf_buf[BUFN], vf_shadow[BUFN];
uint8_t vf_opt_mv, vf_opt_sw, vf_opt_nb;

/* --- the library's register representation, written from enums.h's
 * documentation: bit_mode | asm_reg number ------------------------------- */
unsigned vf_regval(struct areg r) {
  unsigned ext = r.num > 7;
  switch (r.rc) {
  case RC_GPR8: return (ext ? 0x080u : 0x000u) | r.num;
  case RC_GPR8H: return 0x100u | r.num;        /* ah=4 ch=5 dh=6 bh=7 */
  case RC_GPR16: return (ext ? 0x280u : 0x200u) | r.num;
  case RC_GPR32: return (ext ? 0x380u : 0x300u) | r.num;
  case RC_GPR64: return (ext ? 0x480u : 0x400u) | r.num;
  case RC_MM: case RC_XMM: case RC_YMM: return 0x500u | 0x10u | r.num;
  }
  return 0x40u;
}

int vf_regsize(struct areg r) {
  switch (r.rc) {
  case RC_GPR8: case RC_GPR8H: return 8;
  case RC_GPR16: return 16;
  case RC_GPR32: return 32;
  case RC_GPR64: case RC_MM: return 64;
  case RC_XMM: return 128;
  case RC_YMM: return 256;
  }
  return 0;
}

int vf_is_gpr(struct areg r) { return r.rc >= RC_GPR8 && r.rc <= RC_GPR64; }
int vf_is_high(struct areg r) { return r.rc == RC_GPR8H; }
int vf_needs_rex(struct areg r) {
  if (r.rc == RC_MM) return 0;
  if (r.num > 7) return 1;
  if (r.rc == RC_GPR8 && r.num >= 4) return 1;
  return 0;
}
int vf_mem_needs_rex(const struct amem *m) {
  return (m->has_base && m->base.num > 7) || (m->has_index && m->index.num > 7);
}

struct areg vf_any_reg(int in_rc, int in_num, unsigned class_mask) {
  struct areg r;
  unsigned long c = IN(in_rc), n = IN(in_num);
  ASSUME(c >= RC_GPR8 && c <= RC_YMM);
  ASSUME((class_mask >> c) & 1);
  ASSUME(n < 16);
  if (c == RC_MM) ASSUME(n < 8);
  if (c == RC_GPR8H) ASSUME(n >= 4 && n < 8);
  r.rc = (uint8_t)c; r.num = (uint8_t)n;
  return r;
}

static const char *const N8[16] = {"al", "cl", "dl", "bl", "spl", "bpl", "sil", "dil", "r8b", "r9b", "r10b", "r11b", "r12b", "r13b", "r14b", "r15b"};
static const char *const N8H[8] = {"?", "?", "?", "?", "ah", "ch", "dh", "bh"};
static const char *const N16[16] = {"ax", "cx", "dx", "bx", "sp", "bp", "si", "di", "r8w", "r9w", "r10w", "r11w", "r12w", "r13w", "r14w", "r15w"};
static const char *const N32[16] = {"eax", "ecx", "edx", "ebx", "esp", "ebp", "esi", "edi", "r8d", "r9d", "r10d", "r11d", "r12d", "r13d", "r14d", "r15d"};
static const char *const N64[16] = {"rax", "rcx", "rdx", "rbx", "rsp", "rbp", "rsi", "rdi", "r8", "r9", "r10", "r11", "r12", "r13", "r14", "r15"};
static const char *const NMM[8] = {"mm0", "mm1", "mm2", "mm3", "mm4", "mm5", "mm6", "mm7"};
static const char *const NX[16] = {"xmm0", "xmm1", "xmm2", "xmm3", "xmm4", "xmm5", "xmm6", "xmm7", "xmm8", "xmm9", "xmm10", "xmm11", "xmm12", "xmm13", "xmm14", "xmm15"};
static const char *const NY[16] = {"ymm0", "ymm1", "ymm2", "ymm3", "ymm4", "ymm5", "ymm6", "ymm7", "ymm8", "ymm9", "ymm10", "ymm11", "ymm12", "ymm13", "ymm14", "ymm15"};

const char *vf_regname(struct areg r) {
  switch (r.rc) {
  case RC_GPR8: return N8[r.num & 15];
  case RC_GPR8H: return N8H[r.num & 7];
  case RC_GPR16: return N16[r.num & 15];
  case RC_GPR32: return N32[r.num & 15];
  case RC_GPR64: return N64[r.num & 15];
  case RC_MM: return NMM[r.num & 7];
  case RC_XMM: return NX[r.num & 15];
  case RC_YMM: return NY[r.num & 15];
  }
  return "?";
}

void vf_fmt_num(char *dst, int k, int style) {
  if (style == 0) sprintf(dst, "0x%lx", VF_NUM[k]);
  else if (style == 3) sprintf(dst, "0x000%lx", VF_NUM[k]);
  else if (style == 4) sprintf(dst, "000%lu", VF_NUM[k]);
  else if (style == 1) sprintf(dst, "0x%016lx", VF_NUM[k]);
  else sprintf(dst, "%lu", VF_NUM[k]);
}

/* --- instance set-up through the public API ---------------------------- */
assemblyline_t vf_instance(int in_base, int *start) {
  unsigned long mv = IN(in_base), sw = IN(in_base + 1), nb = IN(in_base + 2), st = IN(in_base + 3);
  ASSUME(mv < 3 && sw < 2 && nb < 2);
  /* the start offset is a compile-time constant of the query: a symbolic
   * offset turns every emitted byte into a symbolic-index array write
   * (measured 3.5 min instead of seconds); arbitrary offsets are GLUE's job */
  ASSUME(st == VF_START);
  st = VF_START;
  vf_opt_mv = mv; vf_opt_sw = sw; vf_opt_nb = nb;
  for (int i = 0; i < BUFN; i++) {
#ifdef VF_CBMC
    vf_buf[i] = nondet_uchar();
#else
    vf_buf[i] = (uint8_t)(0xc0 + (i * 7) % 61);
#endif
    vf_shadow[i] = vf_buf[i];
  }
  assemblyline_t al = asm_create_instance(vf_buf, BUFN);
  ASSUME(al != NULL);
  asm_mov_imm(al, (enum asm_opt)mv);
  asm_sib_index_base_swap(al, (enum asm_opt)sw);
  asm_sib_no_base(al, (enum asm_opt)nb);
  asm_set_offset(al, (int)st);
  *start = (int)st;
  return al;
}

static struct assemblyline vf_saved;
void vf_frame_save(assemblyline_t al) { vf_saved = *al; }

void vf_frame_check(assemblyline_t al, int start, int end, int rc) {
  /* nothing outside [start,end) changed: one symbolic index stands for all */
#ifdef VF_CBMC
  unsigned j = nondet_uint();
  __CPROVER_assume(j < BUFN);
  if ((int)j < start || (int)j >= end)
    CHECK(vf_buf[j] == vf_shadow[j], "bytes outside the emitted range are unchanged");
#else
  for (int j = 0; j < BUFN; j++)
    if (j < start || j >= end)
      CHECK(vf_buf[j] == vf_shadow[j], "bytes outside the emitted range are unchanged");
#endif
  (void)rc;
  CHECK(al->buffer == vf_buf && al->buffer_len == BUFN, "instance still attached to the caller buffer");
}

/* --- comparisons -------------------------------------------------------- */
int vf_chk_reg(const struct xopd *o, struct areg r) {
  return o->kind == XK_REG && o->rc == r.rc && o->num == r.num;
}

int vf_chk_mem(const struct xopd *o, const struct amem *m) {
  if (o->kind != XK_MEM || o->riprel) return 0;
  if (o->asize != m->asize) return 0;
  for (int k = 0; k < 16; k++) {
    int cw = ((m->has_base && m->base.num == k) ? 1 : 0) + ((m->has_index && m->index.num == k) ? m->scale : 0);
    int cd = ((o->has_base && o->base == k) ? 1 : 0) + ((o->has_index && o->index == k) ? o->scale : 0);
    if (cw != cd) return 0;
  }
  int64_t wd = m->has_disp ? m->disp : 0;
  if (m->asize == 32) return (uint32_t)o->disp == (uint32_t)wd;
  return o->disp == wd;
}

/* STRICT swap: a written rsp/esp index (scale 1) is encoded literally, which
 * the architecture reads as "no index" */
int vf_chk_mem_literal_sp_index(const struct xopd *o, const struct amem *m) {
  if (o->kind != XK_MEM || o->riprel) return 0;
  if (o->asize != m->asize) return 0;
  if (!o->has_base || o->base != m->base.num || o->has_index) return 0;
  int64_t wd = m->has_disp ? m->disp : 0;
  if (m->asize == 32) return (uint32_t)o->disp == (uint32_t)wd;
  return o->disp == wd;
}

static unsigned long maskw(int w) { return w >= 64 ? ~0ul : ((1ul << w) - 1); }

int vf_chk_imm(const struct xopd *o, unsigned long written, int w) {
  if (o->kind != XK_IMM) return 0;
  return (((unsigned long)o->imm) & maskw(w)) == (written & maskw(w));
}

int vf_representable(unsigned long written, int w, int sext32) {
  if (w >= 64) {
    if (!sext32) return 1;
    return written < 0x80000000ul || written >= 0xffffffff80000000ul;
  }
  return written <= maskw(w) || written >= (0ul - (1ul << (w - 1)));
}

/* --- contract stubs (symbolic build only) ------------------------------- */
#ifdef VF_CBMC
asm_reg str_to_reg_real(char *reg);
unsigned long vf_model_strtoul(const char *p, char **end, int base);

static int vf_slot(const char *s) {
  static const char *const G[VF_NSLOT] = {"rax", "rcx", "rdx", "rbx", "rsi", "rdi"};
  for (int k = 0; k < VF_NSLOT; k++)
    if (!strcmp(s, G[k])) return k;
  if ((s[0] == 'x' || s[0] == 'y') && s[1] == 'm' && s[2] == 'm' && s[3] >= '0' && s[3] < '0' + VF_NSLOT && s[4] == 0)
    return s[3] - '0';
  return -1;
}

asm_reg str_to_reg(char *reg) {
  if (reg[0] == '\0') return reg_none;
  int k = vf_slot(reg);
  if (k >= 0) return (asm_reg)VF_SYM[k];
  return str_to_reg_real(reg);
}

unsigned long strtoul(const char *s, char **end, int base) {
  const char *p = s;
  int neg = 0;
  while (*p == ' ') p++;
  if (*p == '-') { neg = 1; p++; } else if (*p == '+') p++;
  int hex = p[0] == '0' && p[1] == 'x';
  const char *d = hex ? p + 2 : p;
  /* placeholder written with leading zeros (hexadecimal after 0x, or decimal) */
  while (d[0] == '0' && d[1] >= '0' && d[1] <= '9') d++;
  if (d[0] >= '1' && d[0] < '1' + VF_NNUM && d[1] == d[0]) {
    int k = d[0] - '1';
    unsigned long v = VF_NUM[k];
    /* the base matters only where it changes the value read: "0x.." read in
     * base 10 stops at the x (0), a decimal numeral below 10 reads the same in
     * base 16 */
    if (hex) { if (v != 0) CHECK(base == 16 || base == 0, "hexadecimal literal converted in base 16"); }
    else if (v >= 10) CHECK(base == 10, "decimal literal converted in base 10");
    return neg ? 0ul - v : v;
  }
  return vf_model_strtoul(s, end, base);
}
#endif
