/* C10 (kinds, lookup level): for the concrete mnemonic MNEMONIC and an
 * arbitrary operand-kind string of up to 4 letters over {r,v,y,m,i}, if the
 * real lookup (get_opd_format + str_to_instr_key on the real tables) accepts
 * the combination then x86-64 has that kind combination for the mnemonic
 * (VALID_LIST, from spec/kinds.json = nasm's verdicts).
 * Replay: a line with that mnemonic and operands of those kinds through the
 * public API must be rejected. */
#include "vf.h"
#include <assemblyline.h>
#include "instruction_data.h"
#include "instr_parser.h"
#include "enums.h"
#include "instructions.h"
#include "common.h"

static const char *const VALID[] = { VALID_LIST 0 };

void harness(void) {
  /* the first kind letter is a constant of the query (FIRST, 0 = no operand):
   * cbmc 6.11 mis-reads `TABLE[symbolic].string_member` through a pointer
   * (see DESIGN.md, threats to validity), and the lookup's start index is
   * derived from the first letter */
  char kinds[5];
  unsigned long nk = IN(0);
  ASSUME(nk <= 4);
  for (int i = 0; i < 4; i++) {
    unsigned long k = IN(1 + i);
    ASSUME(k < 5);
    if (i == 0) { ASSUME(FIRST == 0 ? nk == 0 : (nk >= 1 && "rvymi"[k] == FIRST)); }
    if (i == 0) kinds[0] = (char)FIRST;     /* a constant, not an ite over n */
    else kinds[i] = (unsigned long)i < nk ? "rvymi"[k] : 0;
  }
  kinds[4] = 0;
  int valid = 0;
  for (int i = 0; VALID[i]; i++)
    if (!strcmp(VALID[i], kinds)) valid = 1;
  VF_REGION();
#ifdef VF_CBMC
  static uint8_t b[32];
  assemblyline_t al = asm_create_instance(b, 32);   /* builds the index tables */
  ASSUME(al != NULL);
  char mn[INSTRUCTION_CHAR_LEN] = MNEMONIC;
  char k2[5]; for (int i = 0; i < 5; i++) k2[i] = kinds[i];
  operand_format f = get_opd_format(k2);
  int key = f == opd_error ? INSTR_ERROR : str_to_instr_key(mn, f);
  /* the format `n` stands for no operand and for one immediate; line_to_instr
   * tells them apart after the lookup by the row's operand encoding.  That
   * rule is mirrored here; that line_to_instr applies it is decided by the
   * whole-pipeline queries c10.<mnemonic>.kinds_none / kinds_i. */
  if (key >= 0 && f == n) {
    int takes_imm = (int)INSTR_TABLE[key].encode_operand != NA;
    if (takes_imm != (kinds[0] == 'i')) key = INSTR_ERROR;
  }
  if (key >= 0) CHECK(valid, "an accepted operand-kind combination is one x86-64 defines for this mnemonic");
#else
  /* through the public API with representative operands of each kind */
  static const char *const OPS[5][3] = { {"rcx", "ecx", "cl"}, {"xmm1", "xmm2", "xmm3"}, {"ymm1", "ymm2", "ymm3"},
                                         {"[rcx]", "[rcx]", "[rcx]"}, {"3", "3", "3"} };
  int accepted = 0;
  for (int variant = 0; variant < 3 && !accepted; variant++) {
    char line[128]; int p = snprintf(line, sizeof line, "%s", MNEMONIC);
    for (unsigned long i = 0; i < nk; i++) {
      int k = (int)(strchr("rvymi", kinds[i]) - "rvymi");
      p += snprintf(line + p, sizeof line - p, "%s%s", i ? ", " : " ", OPS[k][variant]);
    }
    snprintf(line + p, sizeof line - p, "\n");
    static uint8_t buf[64];
    assemblyline_t al = asm_create_instance(buf, 64);
    int rc = asm_assemble_str(al, line);
    printf("TEXT %sRC %d\n", line, rc);
    if (rc == EXIT_SUCCESS) accepted = 1;
    asm_destroy_instance(al);
  }
  if (accepted) CHECK(valid, "an accepted operand-kind combination is one x86-64 defines for this mnemonic");
#endif
  WITNESS();
}
