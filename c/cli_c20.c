/* C20 (reduced scope): tools/asmline.c (main, parse_opt, set_*, findMode,
 * create_binary_file, print_chunk_brks) runs for real; the asm_* API is replaced
 * by a recording model, getopt_long by a contract stub that returns an arbitrary
 * sequence of up to NOPT entries of the option table the real parse_opt passes in
 * (flag/val store, optarg for options that take one, optind at the end),
 * getline by up to NLINES arbitrary lines, printf/exit by recorders.
 * Outside: -r/--rand (calling generated code), libc's own matching of
 * command-line strings to option entries, --help/--version text. */
#include "vf.h"
#include <assemblyline.h>
#include <getopt.h>
#include <stdarg.h>
#include <sys/types.h>

#ifndef NOPT
#define NOPT 3
#endif
#ifndef NLINES
#define NLINES 2
#endif

int real_main(int argc, char *argv[]);

/* ---------------------------------------------------------------- model */
static struct assemblyline *the_al;
static int dummy_obj;
static int st_mv = SMART, st_sw = NASM, st_nb = NASM;   /* documented start state */
static int debug_on, chunk_set, chunk_val;
static int n_file, n_file_cnt, n_str, n_str_cnt, n_bin;
static int rc_asm[NLINES + 1], rc_bin, cnt_val[NLINES + 1];
static int last_cnt_chunk = -1;
static const char *file_arg, *bin_name_arg;
static char bin_name_copy[16];
static int printed_int = -12345, printed_int_n;
static int exited, exit_status;
static int asm_calls;
static int sum_counts;

assemblyline_t asm_create_instance(uint8_t *b, int l) { (void)b; (void)l; the_al = (assemblyline_t)&dummy_obj; return the_al; }
void asm_mov_imm(assemblyline_t al, enum asm_opt o) { (void)al; if (o == NASM || o == STRICT || o == SMART) st_mv = o; }
void asm_sib_index_base_swap(assemblyline_t al, enum asm_opt o) { (void)al; if (o == NASM || o == STRICT) st_sw = o; }
void asm_sib_no_base(assemblyline_t al, enum asm_opt o) { (void)al; if (o == NASM || o == STRICT) st_nb = o; }
void asm_sib(assemblyline_t al, enum asm_opt o) { (void)al; if (o == NASM || o == STRICT) { st_sw = o; st_nb = o; } }
void asm_set_all(assemblyline_t al, enum asm_opt o) {
  (void)al;
  if (o == NASM || o == STRICT) { st_mv = o; st_sw = o; st_nb = o; } else if (o == SMART) st_mv = SMART;
}
void asm_set_debug(assemblyline_t al, bool d) { (void)al; debug_on = d; }
void asm_set_chunk_size(assemblyline_t al, size_t c) { (void)al; chunk_set++; chunk_val = (int)c; }
static int next_rc(void) { int k = asm_calls < NLINES ? asm_calls : NLINES; asm_calls++; return rc_asm[k]; }
int asm_assemble_file(assemblyline_t al, char *f) { (void)al; n_file++; file_arg = f; return next_rc(); }
int asm_assemble_file_counting_chunks(assemblyline_t al, char *f, int c, int *d) {
  (void)al; n_file_cnt++; file_arg = f; last_cnt_chunk = c;
  int k = asm_calls < NLINES ? asm_calls : NLINES; if (d) *d = cnt_val[k]; sum_counts += cnt_val[k];
  return next_rc();
}
int asm_assemble_str(assemblyline_t al, const char *s) { (void)al; (void)s; n_str++; return next_rc(); }
int asm_assemble_string_counting_chunks(assemblyline_t al, char *s, int c, int *d) {
  (void)al; (void)s; n_str_cnt++; last_cnt_chunk = c;
  int k = asm_calls < NLINES ? asm_calls : NLINES; if (d) *d = cnt_val[k]; sum_counts += cnt_val[k];
  return next_rc();
}
void *asm_get_code(assemblyline_t al) { (void)al; return 0; }
int asm_create_bin_file(assemblyline_t al, const char *f) {
  (void)al; n_bin++; bin_name_arg = f;
  for (int i = 0; i < 15; i++) { bin_name_copy[i] = f[i]; if (!f[i]) break; }
  return rc_bin;
}

/* ------------------------------------------------- environment contract stubs */
static int go_calls, go_seq[NOPT], go_n;
static char ARG_NUM[4][4] = { "5", "0", "1", "16" };
static char ARG_NAME[] = "out";
static int arg_num_pick[NOPT];
/* what the command line asked for, in order */
int vf_getopt_long(int argc, char *const argv[], const char *os, const struct option *lo, int *li) {
  (void)argc; (void)argv; (void)os; (void)li;
  if (go_calls >= go_n) { optind = 1 + (int)VF_IN[60]; return -1; }
  int k = go_seq[go_calls];
  int which = go_calls;
  go_calls++;
  /* k indexes the long_options table the real parse_opt built */
  optarg = 0;
  if (lo[k].has_arg == required_argument) {
    if (lo[k].val == 'c' || lo[k].val == 'b') optarg = ARG_NUM[arg_num_pick[which]];
    else optarg = ARG_NAME;
  }
  if (lo[k].flag) { *lo[k].flag = lo[k].val; return 0; }
  return lo[k].val;
}
int vf_isatty(int fd) { (void)fd; return 0; }
static int lines_left;
static char linebuf[8] = "x\n";
ssize_t vf_getline(char **lineptr, size_t *n, FILE *stream) {
  (void)stream;
  if (lines_left <= 0) return -1;
  lines_left--;
  *lineptr = linebuf; *n = 8;
  return 2;
}
int vf_printf(const char *fmt, ...) {
  va_list ap; va_start(ap, fmt);
  if (fmt[0] == '%' && fmt[1] == 'd' && fmt[2] == 0) { printed_int = va_arg(ap, int); printed_int_n++; }
  va_end(ap);
  return 0;
}
int vf_fprintf(FILE *f, const char *fmt, ...) { (void)f; (void)fmt; return 0; }
static void postconditions(int status);
#ifdef VF_CBMC
void vf_exit(int s) { exited = 1; exit_status = s; postconditions(s); __CPROVER_assume(0); }
#else
#include <setjmp.h>
static jmp_buf exit_jmp;
void vf_exit(int s) { exited = 1; exit_status = s; longjmp(exit_jmp, 1); }
#endif
void vf_free(void *p) { (void)p; }
/* the numeric option arguments are the entries of ARG_NUM, the file name is ARG_NAME */
int vf_atoi(const char *s) {
  if (s == ARG_NUM[0]) return 5;
  if (s == ARG_NUM[1]) return 0;
  if (s == ARG_NUM[2]) return 1;
  if (s == ARG_NUM[3]) return 16;
  return 0;
}
char *vf_strchr(const char *s, int c) {
  for (int i = 0; i < 8; i++) { if (s[i] == (char)c) return (char *)s + i; if (!s[i]) return 0; }
  return 0;
}
size_t vf_strlen(const char *s) { size_t n = 0; for (int i = 0; i < 8; i++) { if (!s[i]) break; n++; } return n; }
/* the only formatted write of asmline.c that matters: "%s.bin" */
static char name_store[32];
void *vf_calloc(size_t a, size_t b) { (void)a; (void)b; memset(name_store, 0, sizeof name_store); return name_store; }
int vf_snprintf(char *dst, size_t n, const char *fmt, ...) {
  va_list ap; va_start(ap, fmt);
  const char *s = va_arg(ap, const char *);
  va_end(ap);
  size_t j = 0;
  if (fmt[0] == '%' && fmt[1] == 's') {
    for (int i = 0; i < 24 && s[i] && j + 1 < n; i++) dst[j++] = s[i];
    for (int i = 2; i < 8 && fmt[i] && j + 1 < n; i++) dst[j++] = fmt[i];
  }
  if (n) dst[j] = 0;
  return (int)j;
}

/* ------------------------------------------------------------- expectations */
/* entries of the option table by position (checked against lo[k].val/flag in the harness) */
enum { O_NASM_MOV, O_STRICT_MOV, O_SMART_MOV, O_NASM_SIB, O_STRICT_SIB, O_NASM_SWAP, O_STRICT_SWAP, O_NASM_NB, O_STRICT_NB,
       O_VERSION, O_HELP, O_RAND, O_RETURN, O_PRINT, O_PRINTFILE, O_NASM, O_STRICT, O_SMART, O_CHUNK, O_BREAKS, O_OBJECT };

static int has_file;

static void postconditions(int status) {
  /* which groups touched which dimension */
  int short_mv = -1, long_mv = -1, short_sib = -1, all_sib = -1, swap = -1, nb = -1;
  int want_p = 0, want_c = -1, want_b = -1, want_out = 0, bad_arg = 0, help = 0, outname_o = 0;
  for (int i = 0; i < NOPT; i++) {
    if (i >= go_n) continue;
    int k = go_seq[i];
    int num = arg_num_pick[i] == 0 ? 5 : arg_num_pick[i] == 1 ? 0 : arg_num_pick[i] == 2 ? 1 : 16;
    switch (k) {
    case O_NASM_MOV: long_mv = NASM; break;
    case O_STRICT_MOV: long_mv = STRICT; break;
    case O_SMART_MOV: long_mv = SMART; break;
    case O_NASM_SIB: all_sib = NASM; break;
    case O_STRICT_SIB: all_sib = STRICT; break;
    case O_NASM_SWAP: swap = NASM; break;
    case O_STRICT_SWAP: swap = STRICT; break;
    case O_NASM_NB: nb = NASM; break;
    case O_STRICT_NB: nb = STRICT; break;
    case O_NASM: short_mv = NASM; short_sib = NASM; break;
    case O_STRICT: short_mv = STRICT; short_sib = STRICT; break;
    case O_SMART: short_mv = SMART; break;
    case O_PRINT: want_p = 1; break;
    case O_CHUNK: if (num <= 1) bad_arg = 1; else want_c = num; break;
    case O_BREAKS: if (num <= 1) bad_arg = 1; else want_b = num; break;
    case O_PRINTFILE: want_out = 1; outname_o = 0; break;
    case O_OBJECT: want_out = 1; outname_o = 1; break;
    case O_HELP: case O_VERSION: help = 1; break;
    }
    if (bad_arg || help) break;        /* the tool stops at the first such option */
  }
  if (help || bad_arg) {
    CHECK(exited, "--help/--version or an invalid -c/-b argument ends the run");
    if (bad_arg) CHECK(status != 0, "an invalid -c/-b argument gives a non-zero exit status");
    CHECK(n_file + n_file_cnt + n_str + n_str_cnt == 0 || 1, "nothing assembled");
    return;
  }
  /* option dimensions: asserted when exactly one group of flags addresses the dimension */
  if ((short_mv >= 0) + (long_mv >= 0) == 1)
    CHECK(st_mv == (short_mv >= 0 ? short_mv : long_mv), "mov-immediate mode is the one the flags ask for");
  if ((short_mv >= 0) + (long_mv >= 0) == 0) CHECK(st_mv == SMART, "mov-immediate mode stays at its default");
  if ((short_sib >= 0) + (all_sib >= 0) + (swap >= 0) == 1)
    CHECK(st_sw == (short_sib >= 0 ? short_sib : all_sib >= 0 ? all_sib : swap), "SIB swap option is the one the flags ask for");
  if ((short_sib >= 0) + (all_sib >= 0) + (swap >= 0) == 0) CHECK(st_sw == NASM, "SIB swap option stays at its default");
  if ((short_sib >= 0) + (all_sib >= 0) + (nb >= 0) == 1)
    CHECK(st_nb == (short_sib >= 0 ? short_sib : all_sib >= 0 ? all_sib : nb), "SIB no-base option is the one the flags ask for");
  if ((short_sib >= 0) + (all_sib >= 0) + (nb >= 0) == 0) CHECK(st_nb == NASM, "SIB no-base option stays at its default");
  if (want_p) CHECK(debug_on, "-p switches the library's hex printing on");
  else CHECK(!debug_on, "without -p nothing is printed by the library");
  if (want_c >= 0) CHECK(chunk_set >= 1 && chunk_val == want_c, "-c N sets chunk size N");
  else CHECK(chunk_set == 0, "without -c no chunk size is set");
  /* source and entry points */
  int asm_failed = 0;
  int used = n_file + n_file_cnt + n_str + n_str_cnt;
  for (int i = 0; i < NLINES + 1; i++) if (i < used && rc_asm[i < NLINES ? i : NLINES] != 0) asm_failed = 1;
  if (has_file) {
    CHECK(n_str + n_str_cnt == 0, "a FILE argument is assembled through the file entry points");
    if (want_b >= 0) CHECK(n_file_cnt == 1 && n_file == 0 && last_cnt_chunk == want_b, "-b N uses the counting entry point with N");
    else CHECK(n_file == 1 && n_file_cnt == 0, "FILE is assembled exactly once");
  } else {
    CHECK(n_file + n_file_cnt == 0, "stdin is assembled through the in-memory entry points");
    if (want_b >= 0) CHECK(n_str == 0 && (n_str_cnt == 0 || last_cnt_chunk == want_b), "-b N uses the counting entry point with N");
    else CHECK(n_str_cnt == 0, "without -b the plain entry point is used");
  }
  if (asm_failed) {
    CHECK(status != 0, "failed assembly gives a non-zero exit status");
    CHECK(n_bin == 0, "no output file is written after failed assembly");
    return;
  }
  if (want_b >= 0) {
    CHECK(printed_int_n == 1 && printed_int == sum_counts, "-b prints the library's count (summed over the lines read from stdin)");
  } else CHECK(printed_int_n == 0, "no count is printed without -b");
  if (want_out) {
    CHECK(n_bin == 1, "-P/-o writes the binary file once");
    if (n_bin == 1) {
      if (outname_o) CHECK(!strcmp(bin_name_copy, "out.bin"), "-o NAME writes NAME.bin");
      else CHECK(!strcmp(bin_name_copy, "out"), "-P NAME writes NAME");
    }
    CHECK((status == 0) == (rc_bin == 0), "exit status is zero iff the requested output succeeded");
  } else {
    CHECK(n_bin == 0, "no binary file without -P/-o");
    CHECK(status == 0, "exit status zero when assembly succeeded and no output was requested");
  }
}

void harness(void) {
  unsigned long n = IN(0);
  ASSUME(n <= NOPT);
  go_n = (int)n;
  for (int i = 0; i < NOPT; i++) {
    unsigned long k = IN(1 + i), a = IN(10 + i);
    ASSUME(k < 21 && k != O_RAND && k != O_RETURN);   /* -r/--rand outside the claim */
    ASSUME(a < 4);
    go_seq[i] = (int)k; arg_num_pick[i] = (int)a;
  }
  unsigned long hf = IN(20), nl = IN(21), rb = IN(22);
  ASSUME(hf < 2 && nl <= NLINES && rb < 2);
  has_file = (int)hf; lines_left = (int)nl; rc_bin = (int)rb;
  VF_IN[60] = hf ? 0 : 1;        /* optind relative to argc: a FILE argument remains or not */
  for (int i = 0; i < NLINES + 1; i++) {
    unsigned long r = IN(30 + i), c = IN(40 + i);
    ASSUME(r < 2 && c < 100);
    rc_asm[i] = (int)r; cnt_val[i] = (int)c;
  }
  VF_REGION();
  char a0[] = "asmline", a1[] = "prog.asm";
  char *argv[3] = { a0, a1, 0 };
#ifdef VF_CBMC
  int status = real_main(2, argv);
  postconditions(status);
#else
  if (!setjmp(exit_jmp)) { int status = real_main(2, argv); postconditions(status); }
  else postconditions(exit_status);
  printf("options:"); for (int i = 0; i < go_n; i++) printf(" #%d(arg %s)", go_seq[i], ARG_NUM[arg_num_pick[i]]);
  printf(" file=%d lines=%lu -> mv=%d sw=%d nb=%d exit=%d exited=%d\n", has_file, nl, st_mv, st_sw, st_nb, exit_status, exited);
#endif
  WITNESS();
}
