/* C19: the file entry points equal their in-memory counterparts, and
 * asm_create_bin_file writes exactly [0, offset).
 *
 * symbolic build: the OS is the model of vf_os.c (page size OS_PAGE); the
 * in-memory entry points are replaced by recorders, so the query decides what
 * text the file functions hand over (content, termination inside the mapping),
 * and that results are passed through.
 * replay build: real files; sizes are scaled from the model page to the real
 * page (s = q*OS_PAGE + r  ->  q*pagesize + r) and the file call is compared
 * with asm_assemble_str on the same content. */
#define VF_OS_NOREDIRECT 1
#include "vf_os.h"
#include "vf.h"
#include <assemblyline.h>
#include "instruction_data.h"

static uint8_t buf1[256], buf2[256];

#ifdef VF_CBMC
static int rec_called, rec_rc, rec_cnt, rec_chunk;
static void rec_check(const char *s) {
  rec_called++;
  CHECK((const unsigned char *)s == os_map_base, "the text handed to the assembler is the file mapping");
  int term = -1;
  for (unsigned i = 0; i < OS_MAXFILE + 2 * OS_PAGE; i++)
    if (term < 0 && s[i] == 0) term = (int)i;
  CHECK(term >= 0 && (unsigned)term < os_map_end, "the text is NUL-terminated inside the mapped pages (no read past the mapping)");
  CHECK(term == (int)os_file_size, "the text is exactly the file's contents");
  for (unsigned i = 0; i < OS_MAXFILE; i++)
    if (i < os_file_size) CHECK((unsigned char)s[i] == os_file[i], "the text is exactly the file's contents");
}
int rec_assemble_str(assemblyline_t al, const char *s) { (void)al; rec_check(s); return rec_rc; }
int rec_assemble_counting(assemblyline_t al, char *s, int chunk, int *dest) {
  (void)al; rec_check(s); rec_chunk = chunk; if (dest) *dest = rec_cnt; return rec_rc;
}
#endif

void harness(void) {
  unsigned long size = IN(0), exists = IN(1), which = IN(2), chunk = IN(3), rcv = IN(4), cntv = IN(5);
  ASSUME(size <= OS_MAXFILE && exists < 2 && which < 2 && chunk <= 64 && rcv < 2 && cntv < 1000);
  os_file_size = (unsigned)size; os_file_exists = (int)exists;
  for (unsigned i = 0; i < OS_MAXFILE; i++) {
#ifdef VF_CBMC
    os_file[i] = nondet_uchar();
    __CPROVER_assume(os_file[i] != 0);
#else
    os_file[i] = "nop\n"[i % 4];
#endif
  }
  VF_REGION();
#ifdef VF_CBMC
  rec_rc = (int)rcv; rec_cnt = (int)cntv;
  assemblyline_t al = asm_create_instance(buf1, sizeof buf1);
  ASSUME(al != NULL);
  int cnt = -1, rc;
  char path[] = "file.asm";
  if (which == 0) rc = asm_assemble_file(al, path);
  else rc = asm_assemble_file_counting_chunks(al, path, (int)chunk, &cnt);
  if (!exists) {
    CHECK(rc == EXIT_FAILURE, "a missing or unreadable file yields EXIT_FAILURE");
    CHECK(rec_called == 0, "nothing is assembled for a missing file");
  } else {
    CHECK(rec_called == 1, "the file's text is assembled exactly once (an empty file is the empty program)");
    if (rec_called == 1) {
      CHECK(rc == rec_rc, "the in-memory result is passed through");
      if (which == 1) { CHECK(cnt == rec_cnt, "the count is passed through"); CHECK(rec_chunk == (int)chunk, "the chunk size is passed through"); }
      CHECK(os_unmapped_ok, "the mapping is released");
    }
  }
#else
  /* real files, sizes scaled to the real page size */
  long page = sysconf(_SC_PAGESIZE);
  size_t real = (size / OS_PAGE) * (size_t)page + (size % OS_PAGE);
  char path[64]; snprintf(path, sizeof path, "/tmp/vf-c19-%d.asm", (int)getpid());
  char *content = malloc(real + 1);
  /* contents: 10-byte instructions (they straddle chunk boundaries, so a file
   * entry point that assembles in another mode than the string one shows),
   * then nops, then blank lines */
  { static const char L[] = "mov rax,0x1122334455667788\n"; size_t i = 0, ll = sizeof L - 1;
    while (real - i >= ll) { memcpy(content + i, L, ll); i += ll; }
    while (real - i >= 4) { memcpy(content + i, "nop\n", 4); i += 4; }
    while (i < real) content[i++] = '\n'; }
  content[real] = 0;
  if (exists) { FILE *f = fopen(path, "wb"); fwrite(content, 1, real, f); fclose(f); } else unlink(path);
  static uint8_t big1[1 << 17], big2[1 << 17];
  /* the instance's earlier settings are part of "behaves exactly as": the pair
   * is compared from three earlier states (fresh, chunk fitting 16, chunk fitting 32) */
  static const int pre[3] = { 0, 16, 32 };
  for (int k = 0; k < 3; k++) {
    memset(big1, 0, sizeof big1); memset(big2, 0, sizeof big2);
    assemblyline_t a = asm_create_instance(big1, sizeof big1), b = asm_create_instance(big2, sizeof big2);
    if (pre[k]) { asm_set_chunk_size(a, pre[k]); asm_set_chunk_size(b, pre[k]); }
    int c1 = -1, c2 = -1, r1, r2;
    if (which == 0) { r1 = asm_assemble_file(a, path); r2 = asm_assemble_str(b, content); }
    else { r1 = asm_assemble_file_counting_chunks(a, path, (int)chunk, &c1); r2 = asm_assemble_string_counting_chunks(b, content, (int)chunk, &c2); }
    printf("SIZE model=%lu real=%zu exists=%lu pre=%d rc_file=%d rc_str=%d off=%d/%d cnt=%d/%d\n", size, real, exists, pre[k], r1, r2, asm_get_offset(a), asm_get_offset(b), c1, c2);
    if (!exists) CHECK(r1 == EXIT_FAILURE, "a missing or unreadable file yields EXIT_FAILURE");
    else {
      CHECK(r1 == r2, "same return value as the in-memory entry point");
      CHECK(asm_get_offset(a) == asm_get_offset(b), "same offset");
      CHECK(c1 == c2, "same count");
      CHECK(!memcmp(big1, big2, sizeof big1), "same bytes");
    }
    asm_destroy_instance(a); asm_destroy_instance(b);
  }
  unlink(path);
#endif
  WITNESS();
}
