/* C14: chunk counting reports exactly the boundary-crossing instructions of the
 * current call and emits the same bytes as plain assembly. */
#include "glue.h"
#ifndef CMAX
#define CMAX 32
#endif

static int expected(int p, unsigned long c, long start, uint8_t *buf, long *endp) {
  long pos = start; int cnt = 0;
  for (int i = 0; i < KMAX; i++) {
    if (i >= G_PROG[p].n) continue;
    struct aline *l = &G_PROG[p].l[i];
    if (l->kind != LK_INSTR) continue;
    long L = l->len;
    if (c >= 2) {
      /* chunk index of pos without a symbolic division: q*c <= pos < (q+1)*c */
#ifdef VF_CBMC
      unsigned q = nondet_uint();
      __CPROVER_assume(q <= GBUF && q * (unsigned)c <= (unsigned)pos && (unsigned)pos < (q + 1) * (unsigned)c);
#else
      unsigned q = (unsigned)pos / (unsigned)c;
#endif
      if ((unsigned)(pos + L - 1) >= (q + 1) * (unsigned)c) cnt++;
    }
#ifndef GLUE_NOWRITE
    for (int j = 0; j < LMAX; j++)
      if (j < L) CHECK(buf[pos + j] == l->sig[j], "counting emits the same bytes as plain assembly");
#else
    CHECK(glue_find(p, i, buf, pos, GBUF) == pos, "counting places every instruction where plain assembly does");
#endif
    pos += L;
  }
  *endp = pos;
  return cnt;
}

void harness(void) {
  unsigned long n = IN(0), start = IN(1), c1 = IN(2), c2 = IN(3);
#ifndef STARTMAX
#define STARTMAX GBUF
#endif
#ifdef NFIXED
  ASSUME(n == GBUF);
#endif
  ASSUME(start <= STARTMAX);
  ASSUME(n <= GBUF && start <= n && c1 <= CMAX && c2 <= CMAX);
#ifdef CFIX
  ASSUME(c1 == CFIX);
  c1 = CFIX;
  ASSUME(c2 == CFIX || c2 == 0 || c2 == 1);
  if (c2 >= 2) c2 = CFIX;
#endif
  glue_fill(g_buf, g_shadow, GBUF);
  assemblyline_t al = asm_create_instance(g_buf, (int)n);
  ASSUME(al);
  glue_prog(0, 8, 0, al->assembly_opt);
#ifndef NCALLS
#define NCALLS 2
#endif
#if NCALLS > 1
  glue_prog(1, 8 + GLUE_PROG_INPUTS, 0, al->assembly_opt);
#endif
  VF_REGION();
  asm_set_offset(al, (int)start);
  g_base = g_buf; g_lo = (long)start; g_hi = (long)n;
  int cnt = 12345;
  glue_begin(0);
  int rc = asm_assemble_string_counting_chunks(al, G_PROG[0].text, (int)c1, &cnt);
  if (rc == EXIT_SUCCESS) {
    long e1;
    int want = expected(0, c1, (long)start, g_buf, &e1);
    CHECK(asm_get_offset(al) == (int)e1, "offset advanced by the plain code length");
    CHECK(cnt == want, "result = number of instructions spanning two or more chunks (0 for chunk sizes below 2)");
#if NCALLS > 1
    int cnt2 = 777;
    g_lo = e1;
    glue_begin(1);
    int rc2 = asm_assemble_string_counting_chunks(al, G_PROG[1].text, (int)c2, &cnt2);
    if (rc2 == EXIT_SUCCESS) {
      long e2;
      int want2 = expected(1, c2, e1, g_buf, &e2);
      CHECK(asm_get_offset(al) == (int)e2, "offset advanced by the plain code length (second call)");
      CHECK(cnt2 == want2, "the count is that of the current call only");
#ifdef VF_CBMC
      unsigned j = nondet_uint(); __CPROVER_assume(j < GBUF);
      if ((long)j < (long)start || (long)j >= e2) CHECK(g_buf[j] == g_shadow[j], "nothing else in the buffer changes");
#else
      for (long j = 0; j < GBUF; j++) if (j < (long)start || j >= e2) CHECK(g_buf[j] == g_shadow[j], "nothing else in the buffer changes");
#endif
    }
#endif
  }
  WITNESS();
}
