/* C18, sequential reduction (DESIGN.md 5/C18): the only library-internal
 * shared state are the two lookup index arrays.
 *  MODE_BUILD : from arbitrary initial contents, asm_create_instance() leaves in
 *               every entry it writes the value F[k] that depends only on the
 *               constant tables, and leaves the other entries unchanged (S2);
 *               the named rows of both tables are grouped by first letter, so
 *               each entry is stored at most once per build (S3).
 *  MODE_LOOKUP: for the letter LETTER, str_to_instr_key / get_opd_format give the
 *               same answer whether the entry holds 0 (not built yet) or F[k] (S4).
 */
#include "vf.h"
#include <assemblyline.h>
#include "instruction_data.h"
#include "instr_parser.h"
#include "instructions.h"
#include "enums.h"

static uint8_t buf[32];

#ifdef MODE_OBSERVE
/* S3 (observation): what can a reader in another thread see in an index entry
 * while a build runs?  goto-instrument --isr inserts a call of vf_isr() before
 * every access to the two arrays: the "interrupt" is the other thread's atomic
 * load, taken at one nondeterministic point of the build.  (One preempting
 * reader at access granularity: a real, bounded interleaving query.) */
#ifdef VF_CBMC
static int obs_on, obs_seen, obs_k, obs_i, obs_o;
_Bool nondet_bool(void);
void vf_isr(void) {
  if (obs_on && nondet_bool()) {
    obs_i = instr_table_index[obs_k]; obs_o = opd_format_table_index[obs_k];
    obs_seen = 1; obs_on = 0;
  }
}
#else
#include <pthread.h>
static volatile int stop_flag; static int rd_k, rd_Fi, rd_Fo, rd_zero; static volatile long bad_seen;
static void *reader(void *a) {
  (void)a;
  while (!stop_flag) {
    int vi = instr_table_index[rd_k], vo = opd_format_table_index[rd_k];
    if (!(vi == rd_Fi || (rd_zero && vi == 0)) || !(vo == rd_Fo || (rd_zero && vo == 0))) bad_seen++;
  }
  return NULL;
}
#endif
#endif

void harness(void) {
#ifdef MODE_OBSERVE
  unsigned long k = IN(0), zero = IN(1);
  ASSUME(k < LETTERS_IN_ALPHABET && zero < 2);
  assemblyline_t al0 = asm_create_instance(buf, 32);
  ASSUME(al0 != NULL);
  int Fi = instr_table_index[k], Fo = opd_format_table_index[k];
  if (zero)      /* the state at process start */
    for (int j = 0; j < LETTERS_IN_ALPHABET; j++) { instr_table_index[j] = 0; opd_format_table_index[j] = 0; }
#ifdef VF_CBMC
  obs_k = (int)k; obs_on = 1;
  assemblyline_t al1 = asm_create_instance(buf, 32);
  obs_on = 0;
  ASSUME(al1 != NULL);
  if (obs_seen) {
    CHECK(obs_i == Fi || (zero && obs_i == 0), "a reader in another thread sees in an instruction-index entry only its initial or its final value while a build runs");
    CHECK(obs_o == Fo || (zero && obs_o == 0), "a reader in another thread sees in a format-index entry only its initial or its final value while a build runs");
  }
#else
  rd_k = (int)k; rd_Fi = Fi; rd_Fo = Fo; rd_zero = (int)zero;
  pthread_t t; pthread_create(&t, NULL, reader, NULL);
  for (long it = 0; it < 400000 && !bad_seen; it++) {
    if (zero) for (int j = 0; j < LETTERS_IN_ALPHABET; j++) { instr_table_index[j] = 0; opd_format_table_index[j] = 0; }
    assemblyline_t a = asm_create_instance(buf, 32);
    if (a) asm_destroy_instance(a);
  }
  stop_flag = 1; pthread_join(t, NULL);
  printf("reader saw %ld non-final values\n", (long)bad_seen);
  CHECK(bad_seen == 0, "a reader in another thread sees in an index entry only its initial or its final value while a build runs");
#endif
#endif
#ifdef MODE_BUILD
  int init_i[LETTERS_IN_ALPHABET], init_o[LETTERS_IN_ALPHABET];
  for (int k = 0; k < LETTERS_IN_ALPHABET; k++) {
    init_i[k] = (int)IN(k); init_o[k] = (int)IN(30 + k);
    instr_table_index[k] = init_i[k];
    opd_format_table_index[k] = init_o[k];
  }
  assemblyline_t al = asm_create_instance(buf, 32);
  ASSUME(al != NULL);
  /* reference: first row of each letter, computed independently */
  int Fi[LETTERS_IN_ALPHABET], Fo[LETTERS_IN_ALPHABET], wi[LETTERS_IN_ALPHABET], wo[LETTERS_IN_ALPHABET];
  for (int k = 0; k < LETTERS_IN_ALPHABET; k++) { Fi[k] = Fo[k] = -1; wi[k] = wo[k] = 0; }
  int rows = 0, last = -1, grouped = 1;
  for (int i = 3; INSTR_TABLE[i].name != NA; i++) {
    rows++;
    if (INSTR_TABLE[i].instr_name[0] == '\0') continue;
    int l = INSTR_TABLE[i].instr_name[0] - 'a';
    CHECK(l >= 0 && l < LETTERS_IN_ALPHABET, "mnemonics start with a lower-case letter");
    if (Fi[l] < 0) Fi[l] = i;
    else if (last != l) grouped = 0;       /* the letter group was left and re-entered */
    last = l;
  }
  CHECK(grouped, "named rows of INSTR_TABLE are grouped by first letter (each index entry is stored once per build)");
  last = -1; grouped = 1;
  for (int i = 1; OPD_FORMAT_TABLE[i].val != opd_error; i++) {
    int l = OPD_FORMAT_TABLE[i].str[0] - 'a';
    CHECK(l >= 0 && l < LETTERS_IN_ALPHABET, "format strings start with a lower-case letter");
    if (Fo[l] < 0) Fo[l] = i;
    else if (last != l) grouped = 0;
    last = l;
  }
  CHECK(grouped, "rows of OPD_FORMAT_TABLE are grouped by first letter");
  for (int k = 0; k < LETTERS_IN_ALPHABET; k++) {
    CHECK(instr_table_index[k] == (Fi[k] >= 0 ? Fi[k] : init_i[k]), "instr_table_index ends as F or untouched, whatever it held before");
    CHECK(opd_format_table_index[k] == (Fo[k] >= 0 ? Fo[k] : init_o[k]), "opd_format_table_index ends as F or untouched, whatever it held before");
  }
  /* a second build stores the same values again */
  assemblyline_t al2 = asm_create_instance(buf, 32);
  ASSUME(al2 != NULL);
  for (int k = 0; k < LETTERS_IN_ALPHABET; k++)
    CHECK(instr_table_index[k] == (Fi[k] >= 0 ? Fi[k] : init_i[k]) && opd_format_table_index[k] == (Fo[k] >= 0 ? Fo[k] : init_o[k]), "the build is idempotent");
#endif
#ifdef MODE_LOOKUP
  assemblyline_t al = asm_create_instance(buf, 32);
  ASSUME(al != NULL);
  const int L = LETTER - 'a';
  unsigned long lay = IN(0);
  ASSUME(lay <= 40);
  int Fi = instr_table_index[L], Fo = opd_format_table_index[L];
  /* the first and the last mnemonic of the letter's group (the scan start is
   * the only thing the index entry decides) */
  int first_row = -1, last_row = -1;
  for (int i = 3; INSTR_TABLE[i].name != NA; i++)
    if (INSTR_TABLE[i].instr_name[0] == LETTER) { if (first_row < 0) first_row = i; last_row = i; }
  for (int pick = 0; pick < 2; pick++) {
    int i = pick ? last_row : first_row;
    if (i < 0 || (pick && last_row == first_row)) continue;
    char *name = (char *)INSTR_TABLE[i].instr_name;
    instr_table_index[L] = Fi;
    int r1 = str_to_instr_key(name, (operand_format)lay);
    instr_table_index[L] = 0;
    int r2 = str_to_instr_key(name, (operand_format)lay);
    CHECK(r1 == r2, "the instruction lookup does not depend on whether the index entry is 0 or built");
  }
  for (int i = 1; OPD_FORMAT_TABLE[i].val != opd_error; i++) {
    if (OPD_FORMAT_TABLE[i].str[0] != LETTER) continue;
    char *f = (char *)OPD_FORMAT_TABLE[i].str;
    opd_format_table_index[L] = Fo;
    operand_format r1 = get_opd_format(f);
    opd_format_table_index[L] = 0;
    operand_format r2 = get_opd_format(f);
    CHECK(r1 == r2 && r1 == OPD_FORMAT_TABLE[i].val, "the format lookup does not depend on whether the index entry is 0 or built");
  }
#endif
  WITNESS();
}
