/* prints the reference decoder's reading of hex-encoded instructions, one per
 * input line; used by tools/validate_x86dec.py and by replays */
#include "x86dec.h"
#include <stdio.h>
#include <string.h>
#include <stdlib.h>
int main(void) {
  char line[256];
  while (fgets(line, sizeof line, stdin)) {
    uint8_t b[32]; int n = 0;
    for (char *p = line; *p && n < 32;) {
      while (*p == ' ' || *p == '\n') p++;
      if (!*p) break;
      unsigned v; if (sscanf(p, "%2x", &v) != 1) break;
      b[n++] = (uint8_t)v; p += 2;
    }
    struct xinsn D;
    int len = x86dec(b, n, &D);
    printf("len=%d op=%d vex=%d vexl=%d osize=%d nopd=%d far=%d nrows=%d", len, D.op, D.vex, D.vexl, D.osize, D.nopd, D.far, D.nrows);
    for (int i = 0; i < D.nopd && len > 0; i++) {
      struct xopd *o = &D.opd[i];
      if (o->kind == XK_REG) printf(" | reg rc=%d num=%d", o->rc, o->num);
      else if (o->kind == XK_MEM) printf(" | mem hb=%d b=%d hi=%d i=%d s=%d disp=%ld asize=%d msize=%d rip=%d", o->has_base, o->base, o->has_index, o->index, o->scale, (long)o->disp, o->asize, o->msize, o->riprel);
      else if (o->kind == XK_IMM) printf(" | imm v=%ld w=%d", (long)o->imm, o->immw);
      else if (o->kind == XK_REL) printf(" | rel v=%ld w=%d", (long)o->imm, o->immw);
    }
    printf("\n");
  }
  return 0;
}
