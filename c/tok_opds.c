/* TOK unit 2: the operand splitter (instr_tok / operand_tok / check_operand_type
 * with all their real callees) on a line "mnemonic o1,o2,...,ok" whose operands
 * are arbitrary strings of OPW printable characters other than the separators
 * ',' ' ' and TAB (so the comma structure is the concrete part of the query and
 * every operand kind -- register-like, memory-like, immediate-like, junk -- is
 * covered by the symbolic characters).  All memory-safety checks enabled.
 *
 * Replay build: the same line goes through asm_assemble_str under ASan/UBSan. */
#include "vf.h"
#include <assemblyline.h>
#include "instruction_data.h"
#include "common.h"
#include "tokenizer.h"
#ifndef NOPD
#define NOPD 5
#endif
#ifndef OPW
#define OPW 2
#endif
static char line[FILTERED_STR_LEN];

void harness(void) {
  int p = 0;
  line[p++] = 'm'; line[p++] = 'o'; line[p++] = 'v'; line[p++] = ' ';
  for (int k = 0; k < NOPD; k++) {
    if (k) line[p++] = ',';
    for (int w = 0; w < OPW; w++) {
      unsigned long b = IN(k * OPW + w);
      ASSUME(b > 0x20 && b <= 0x7e && b != ',' && !(b >= 'A' && b <= 'Z'));
      line[p++] = (char)b;
    }
  }
  line[p] = 0;
  VF_REGION();
#ifdef VF_CBMC
  struct instr ins; memset(&ins, 0, sizeof ins);
  int rc = instr_tok(&ins, line);
  CHECK(rc == EXIT_SUCCESS || rc == EXIT_FAILURE, "documented result");
  CHECK(ins.mem_index < NUM_OF_OPD, "memory operand index in range");
#else
  static uint8_t buf[256];
  printf("TEXT %s\n", line);
  assemblyline_t al = asm_create_instance(buf, sizeof buf);
  char t[FILTERED_STR_LEN + 2]; snprintf(t, sizeof t, "%s\n", line);
  int rc = asm_assemble_str(al, t);
  printf("RC %d\n", rc);
#endif
  WITNESS();
}
