/* TOK unit 2: the operand splitter (instr_tok / operand_tok / check_operand_type
 * with all their real callees) on a line "mnemonic o1,o2,...,ok" whose operands
 * are arbitrary strings of OPW printable characters other than the separators
 * ',' ' ' and TAB (so the comma structure is the concrete part of the query and
 * every operand kind -- register-like, memory-like, immediate-like, junk -- is
 * covered by the symbolic characters).  All memory-safety checks enabled.
 * With -DKW_STUB the keyword scanner is replaced by its contract stub.
 *
 * Replay build: the same line goes through asm_assemble_str under ASan/UBSan. */
#include "vf.h"
#include <assemblyline.h>
#include "instruction_data.h"
#include "common.h"
#include "tokenizer.h"
#ifndef NOPD
#define NOPD 5
#endif
#ifndef OPW
#define OPW 2
#endif
static char line[FILTERED_STR_LEN];

#ifdef VF_CBMC
/* Contract stub for check_for_keyword (goto-instrument --replace-calls; the real
 * function is the subject of the c09.leaf.kw queries): it may overwrite a
 * prefix of the operand -- leading blanks and keywords, never the terminator
 * or anything behind it -- with blanks, and set any keyword flags. */
unsigned nondet_uint(void);
unsigned char nondet_uchar(void);
void stub_check_for_keyword(struct instr *ins, char *all_opd, int opd_pos) {
  (void)opd_pos;
  unsigned k = nondet_uint();
  __CPROVER_assume(k <= 12);
  int live = 1;
  for (unsigned i = 0; i < 12; i++) {
    if (live && i < k && all_opd[i] != 0) all_opd[i] = ' ';
    else live = 0;
  }
  ins->keyword.is_keyword = nondet_uchar() & 0x3f;
}
#endif

void harness(void) {
  int p = 0;
  line[p++] = 'm'; line[p++] = 'o'; line[p++] = 'v'; line[p++] = ' ';
  for (int k = 0; k < NOPD; k++) {
    if (k) line[p++] = ',';
    for (int w = 0; w < OPW; w++) {
#ifdef OPS_CONCRETE
      /* operand-count query: the operands are the fixed letters a, b, c, ...
       * (everything is concrete, the query is about how many operands the
       * splitter is prepared to store) */
      line[p++] = (char)('a' + k);
#else
      unsigned long b = IN(k * OPW + w);
      ASSUME(b > 0x20 && b <= 0x7e && b != ',' && !(b >= 'A' && b <= 'Z'));
      line[p++] = (char)b;
#endif
    }
  }
  line[p] = 0;
  VF_REGION();
#ifdef VF_CBMC
  struct instr ins; memset(&ins, 0, sizeof ins);
  int rc = instr_tok(&ins, line);
  CHECK(rc == EXIT_SUCCESS || rc == EXIT_FAILURE, "documented result");
  CHECK(ins.mem_index < NUM_OF_OPD, "memory operand index in range");
#else
  static uint8_t buf[256];
  printf("TEXT %s\n", line);
  assemblyline_t al = asm_create_instance(buf, sizeof buf);
  char t[FILTERED_STR_LEN + 2]; snprintf(t, sizeof t, "%s\n", line);
  int rc = asm_assemble_str(al, t);
  printf("RC %d\n", rc);
#endif
  WITNESS();
}
