/* C library models for functions CBMC 6.11 has no body for.  They are
 * differential-tested against glibc by tools/test_libc_models (setup gate). */
#include <stddef.h>
#include <limits.h>
#ifdef VF_MODEL_NATIVE_TEST
#define strstr vfm_strstr
#define strtok_r vfm_strtok_r
#endif

char *strstr(const char *h, const char *n) {
  if (!*n) return (char *)h;
  for (; *h; h++) {
    const char *a = h, *b = n;
    while (*a && *b && *a == *b) { a++; b++; }
    if (!*b) return (char *)h;
  }
  return 0;
}

static int vf_is_delim(char c, const char *d) {
  for (; *d; d++) if (*d == c) return 1;
  return 0;
}

char *strtok_r(char *s, const char *delim, char **save) {
  if (!s) s = *save;
  /* glibc dereferences s unconditionally; a NULL here is a crash */
#ifdef VF_CBMC
  __CPROVER_assert(s != 0, "strtok_r: NULL string and NULL save pointer");
#endif
  if (!s) return 0;
  while (*s && vf_is_delim(*s, delim)) s++;
  if (!*s) { *save = s; return 0; }
  char *tok = s;
  while (*s && !vf_is_delim(*s, delim)) s++;
  if (*s) { *s = 0; *save = s + 1; } else *save = s;
  return tok;
}

unsigned long vf_model_strtoul(const char *p, char **end, int base) {
  const char *s = p; int neg = 0; unsigned long acc = 0; int any = 0, ovf = 0;
  while (*s == ' ' || (*s >= '\t' && *s <= '\r')) s++;
  if (*s == '-') { neg = 1; s++; } else if (*s == '+') s++;
  if ((base == 0 || base == 16) && s[0] == '0' && (s[1] == 'x' || s[1] == 'X')) {
    char c = s[2];
    int hd = (c >= '0' && c <= '9') || (c >= 'a' && c <= 'f') || (c >= 'A' && c <= 'F');
    if (hd) { s += 2; base = 16; }
  }
  if (base == 0) base = (*s == '0') ? 8 : 10;
  for (;; s++) {
    int d; char c = *s;
    if (c >= '0' && c <= '9') d = c - '0';
    else if (c >= 'a' && c <= 'z') d = c - 'a' + 10;
    else if (c >= 'A' && c <= 'Z') d = c - 'A' + 10;
    else break;
    if (d >= base) break;
    any = 1;
    if (acc > (ULONG_MAX - (unsigned long)d) / (unsigned long)base) ovf = 1;
    else acc = acc * (unsigned long)base + (unsigned long)d;
  }
  if (end) *end = (char *)(any ? s : p);
  if (ovf) return ULONG_MAX;
  return neg ? 0ul - acc : acc;
}

#ifdef VF_MODEL_STRTOUL
unsigned long strtoul(const char *p, char **end, int base) { return vf_model_strtoul(p, end, base); }
#endif
