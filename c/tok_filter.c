/* TOK unit 1: the line filter (filter_assembly_str_fsa) and str_to_instr's
 * line-skipping code on an arbitrary byte string; line_to_instr is replaced by
 * a recorder (goto-instrument --replace-calls) that checks its precondition.
 *
 *  MODE_SAFE  (C09): arbitrary bytes, N <= NMAX: no memory error, terminates,
 *             line_to_instr receives a NUL-terminated string inside its buffer.
 *  MODE_NONPRINT (C10): a byte > 0x7e before the line end => failure, and
 *             line_to_instr is never reached.
 *  MODE_CASE / MODE_BLANK / MODE_COMMENT (C16): relational; two raw lines that
 *             differ only by the rewriting hand the same string to
 *             line_to_instr and consume their whole line.
 *
 * Replay build: the raw bytes are passed through the public API under
 * ASan/UBSan (MODE_SAFE, MODE_NONPRINT) or assembled on two instances and
 * compared (relational modes).
 */
#include "vf.h"
#include <assemblyline.h>
#include "instruction_data.h"
#include "common.h"
#include "enums.h"

#ifndef NMAX
#define NMAX 104
#endif

static char raw1[NMAX + 2], raw2[NMAX + 2];

#ifdef VF_CBMC
int __CPROVER_file_local_parser_c_str_to_instr(struct instr *instr_data, const char unfiltered_str[], int *read_len);
char nondet_char(void);
static char rec[2][FILTERED_STR_LEN + 4];
static int rec_n[2], rec_called[2], cur;

int stub_line_to_instr(struct instr *instr_data, char *filtered) {
  (void)instr_data;
  rec_called[cur] = 1;
  /* P1: NUL-terminated inside FILTERED_STR_LEN */
  int term = -1;
  for (int i = 0; i < FILTERED_STR_LEN; i++)
    if (term < 0 && filtered[i] == 0) term = i;
  CHECK(term >= 0, "line_to_instr receives a NUL-terminated string inside its FILTERED_STR_LEN buffer");
  CHECK(term != 0, "line_to_instr is never given an empty string");
  if (term > 0) CHECK(filtered[0] >= 'A' && filtered[0] <= 'z', "the filtered line starts with a letter-range character");
  for (int i = 0; i < FILTERED_STR_LEN; i++)
    if (term >= 0 && i <= term) rec[cur][i] = filtered[i];
  rec_n[cur] = term;
  return EXIT_SUCCESS;
}
#endif

static void any_line(char *raw, int in_len, int in_bytes, int n_max) {
  unsigned long len = IN(in_len);
  ASSUME(len <= (unsigned long)n_max);
  for (int i = 0; i < n_max; i++) {
    unsigned long b = IN(in_bytes + i);
    ASSUME(b <= 0xff);
#ifdef PREFIX_LEN
    /* boundary query: the first PREFIX_LEN bytes are the fixed significant
     * text "mov[rax+0x000..." (it fills the line buffer up to PREFIX_LEN
     * characters), only the tail is arbitrary: every way of reaching and
     * crossing the end of the FILTERED_STR_LEN buffer from there */
    if (i < PREFIX_LEN) { static const char P[] = "mov[rax+0x"; ASSUME(b == (unsigned long)(i < 10 ? P[i] : '0')); }
#endif
    raw[i] = (char)(unsigned char)b;
  }
#ifdef PREFIX_LEN
  ASSUME(len >= PREFIX_LEN);
#endif
  raw[len] = 0;
}

#ifndef VF_CBMC
static int assemble_native(const char *text, uint8_t *out, int *outlen) {
  static uint8_t buf[4096];
  assemblyline_t al = asm_create_instance(buf, sizeof buf);
  int rc = asm_assemble_str(al, text);
  *outlen = rc == EXIT_SUCCESS ? asm_get_offset(al) : 0;
  memcpy(out, buf, *outlen);
  asm_destroy_instance(al);
  return rc;
}
#endif

void harness(void) {
#if defined(MODE_SKIP)
  /* a label, section or global line (arbitrary text around the marker) is
   * skipped: success, nothing looked up, exactly that line consumed */
  {
    unsigned long kind = IN(NMAX + 2), lead = IN(NMAX + 3), tail = IN(NMAX + 4);
    ASSUME(kind < 3 && lead <= 3 && tail <= 10);
    static const char *const MARK[3] = { ":", "section", "global" };
    int p = 0;
    for (int i = 0; i < 3; i++) if ((unsigned long)i < lead) raw1[p++] = ' ';
    if (kind == 0) {
      /* label: name, colon */
      unsigned long nl = IN(NMAX + 5);
      ASSUME(nl >= 1 && nl <= 8);
      for (int i = 0; i < 8; i++)
        if ((unsigned long)i < nl) {
          unsigned long b = IN(1 + i);
          ASSUME((b >= 'a' && b <= 'z') || (b >= 'A' && b <= 'Z') || b == '_' || b == '.' || (i > 0 && b >= '0' && b <= '9'));
          raw1[p++] = (char)b;
        }
    }
    for (const char *m = MARK[kind]; *m; m++) raw1[p++] = *m;
    for (int i = 0; i < 10; i++)
      if ((unsigned long)i < tail) {
        unsigned long b = IN(12 + i);
        ASSUME(b >= 0x20 && b <= 0x7e);
        /* a label *line*: after the colon only blanks or a comment follow */
        if (kind == 0) ASSUME(b == ' ' || b == '\t' || (i > 0 && raw1[p - i] == ';') || (i == 0 && b == ';'));
        raw1[p++] = (char)b;
      }
    raw1[p++] = '\n';
    raw1[p++] = 'r'; raw1[p++] = 'e'; raw1[p++] = 't';
    raw1[p] = 0;
    int linelen = p - 3;
    VF_REGION();
#ifdef VF_CBMC
    struct instr ins; memset(&ins, 0, sizeof ins);
    int read_len = -1;
    cur = 0;
    int rc = __CPROVER_file_local_parser_c_str_to_instr(&ins, raw1, &read_len);
    CHECK(rc == EXIT_SUCCESS, "a label / section / global line is accepted");
    CHECK(!rec_called[0] && ins.key == SKIP, "and emits nothing (it is skipped)");
    CHECK(read_len == linelen, "and exactly that line is consumed");
#else
    uint8_t out[4096]; int n;
    int rc = assemble_native(raw1, out, &n);
    printf("TEXT %sRC %d LEN %d\n", raw1, rc, n);
    CHECK(rc == EXIT_SUCCESS && n == 1 && out[0] == 0xc3, "the line is skipped and the following 'ret' is assembled");
#endif
  }
#elif defined(MODE_SAFE) || defined(MODE_NONPRINT)
  any_line(raw1, 0, 1, NMAX);
#ifdef MODE_NONPRINT
  /* some byte above 0x7e occurs before the first line terminator */
  unsigned long pos = IN(NMAX + 2);
  ASSUME(pos < NMAX && (unsigned char)raw1[pos] > 0x7e);
  for (int i = 0; i < NMAX; i++)
    if ((unsigned long)i < pos) ASSUME(raw1[i] != '\n' && raw1[i] != '\r' && raw1[i] != 0);
#ifdef STRICT_NONPRINT
  /* the byte is part of the instruction text (not inside a comment) */
  for (int i = 0; i < NMAX; i++)
    if ((unsigned long)i < pos) ASSUME(raw1[i] != ';' && raw1[i] != '%');
#endif
#endif
  VF_REGION();
#ifdef VF_CBMC
  struct instr ins; memset(&ins, 0, sizeof ins);
  int read_len = -1;
  cur = 0;
  int rc = __CPROVER_file_local_parser_c_str_to_instr(&ins, raw1, &read_len);
  if (rc == EXIT_SUCCESS) CHECK(read_len >= 0 && read_len <= NMAX + 1, "the consumed length stays inside the text");
#ifdef MODE_NONPRINT
  CHECK(rc != EXIT_SUCCESS, "a line containing a byte outside printable ASCII is rejected");
  CHECK(!rec_called[0], "no instruction is looked up for that line");
#else
  if (rc == EXIT_SUCCESS) CHECK(read_len >= 1 || raw1[0] == 0, "progress: at least one character is consumed from a non-empty text");
#endif
#else
  uint8_t out[4096]; int n;
  int rc = assemble_native(raw1, out, &n);
  printf("TEXT(hex)"); for (int i = 0; raw1[i]; i++) printf(" %02x", (unsigned char)raw1[i]); printf("\nRC %d LEN %d\n", rc, n);
#ifdef MODE_NONPRINT
  CHECK(rc != EXIT_SUCCESS, "a line containing a byte outside printable ASCII is rejected");
#endif
#endif
#else
  /* relational modes: raw2 is raw1 rewritten */
#ifdef MODE_BLANKRUN
  /* long runs of blanks (C16: any amount of spacing): raw1 is a 3-letter
   * mnemonic, one blank and BR_K arbitrary operand characters; raw2 has RUN_A
   * blanks/tabs before the mnemonic and RUN_B more after the separating blank.
   * All positions are constants; RUN_A + RUN_B exceeds the line buffer, so any
   * limit that counts dropped blanks shows. */
  int j = 0;
  {
    int p = 0;
    for (int k = 0; k < RUN_A; k++) raw2[j++] = (k & 1) ? '\t' : ' ';
    for (int k = 0; k < 3 + BR_K; k++) {
      unsigned long b = IN(1 + k);
      char c = (char)(unsigned char)b;
      if (k < 3) ASSUME(b >= 'a' && b <= 'z');
      else ASSUME(b >= 0x20 && b < 0x7f && c != ';' && c != '%');
      if (k == 3) { raw1[p++] = ' '; raw2[j++] = ' '; for (int q = 0; q < RUN_B; q++) raw2[j++] = (q & 1) ? '\t' : ' '; }
      raw1[p++] = c; raw2[j++] = c;
    }
    raw1[p++] = '\n'; raw1[p] = 0; raw2[j++] = '\n';
  }
#else
  any_line(raw1, 0, 1, NMAX / 2);
  int j = 0;
  int in_comment = 0, seen_letter = 0;
  for (int i = 0; i < NMAX / 2; i++) {
    char c = raw1[i];
    if (c == 0) break;
    /* the rewritings below are the ones C16 names; they are applied to the
     * instruction text of a single line */
    ASSUME(c != '\n' && c != '\r');
#ifdef MODE_CASE
    ASSUME(c >= 0x20 && c < 0x7f);
    unsigned long flip = IN(NMAX + 4 + i);
    ASSUME(flip < 2);
    if (c == ';' || c == '%') in_comment = 1;
    if (!in_comment && flip && c >= 'a' && c <= 'z') raw2[j++] = c - 32;
    else if (!in_comment && flip && c >= 'A' && c <= 'Z') raw2[j++] = c + 32;
    else raw2[j++] = c;
    (void)seen_letter;
#endif
#ifdef MODE_BLANK
    /* extra blanks where the filter drops them: before the mnemonic, and
     * anywhere after the first blank that follows the mnemonic */
    ASSUME(c >= 0x20 && c < 0x7f && c != ';' && c != '%');
    unsigned long ins_blank = IN(NMAX + 4 + i);
    ASSUME(ins_blank < 3);
    static int state;             /* 0 before mnemonic, 1 inside mnemonic, 2 after first blank */
    if (i == 0) state = 0;
    int allowed = state == 0 || state == 2;
    if (allowed && ins_blank == 1) raw2[j++] = ' ';
    if (allowed && ins_blank == 2) raw2[j++] = '\t';
    raw2[j++] = c;
    if (state == 0 && c >= 'A' && c <= 'z') state = 1;
    else if (state == 1 && c == ' ') state = 2;
    (void)in_comment; (void)seen_letter;
#endif
#ifdef MODE_COMMENT
    ASSUME(c >= 0x20 && c < 0x7f && c != ';' && c != '%');
    raw2[j++] = c;
    (void)in_comment; (void)seen_letter;
#endif
  }
#ifdef MODE_COMMENT
  /* a trailing comment, and LF versus CRLF */
  {
    unsigned long clen = IN(NMAX + 3), crlf = IN(NMAX + 2);
    ASSUME(clen <= 6 && crlf < 2);
    raw2[j++] = ';';
    for (int k = 0; k < 6; k++)
      if ((unsigned long)k < clen) {
#ifdef VF_CBMC
        char cc = nondet_char();
#else
        char cc = 'c';
#endif
        ASSUME(cc != '\n' && cc != '\r' && cc != 0 && (unsigned char)cc <= 0x7e);
        raw2[j++] = cc;
      }
    if (crlf) raw2[j++] = '\r';
    raw2[j++] = '\n';
    int l1 = (int)strlen(raw1);
    raw1[l1] = '\n'; raw1[l1 + 1] = 0;
  }
#endif
#endif
  raw2[j] = 0;
  VF_REGION();
#ifdef VF_CBMC
  struct instr i1, i2; memset(&i1, 0, sizeof i1); memset(&i2, 0, sizeof i2);
  int l1 = -1, l2 = -1;
  cur = 0; int rc1 = __CPROVER_file_local_parser_c_str_to_instr(&i1, raw1, &l1);
  cur = 1; int rc2 = __CPROVER_file_local_parser_c_str_to_instr(&i2, raw2, &l2);
  CHECK(rc1 == rc2, "both spellings are accepted or both rejected by the filter");
  CHECK(rec_called[0] == rec_called[1], "both spellings reach (or skip) the instruction lookup alike");
  CHECK(i1.key == i2.key, "both spellings are skipped alike");
  if (rec_called[0] && rec_called[1]) {
    CHECK(rec_n[0] == rec_n[1], "the tokenizer receives strings of the same length");
    for (int i = 0; i < FILTERED_STR_LEN; i++)
      if (i <= rec_n[0]) CHECK(rec[0][i] == rec[1][i], "the tokenizer receives the same string for both spellings");
  }
  /* CRLF: the '\n' left after "...\r" is an empty line of its own */
  CHECK(raw1[l1] == 0 && (raw2[l2] == 0 || (raw2[l2] == '\n' && raw2[l2 + 1] == 0)), "each spelling consumes its whole line");
#else
  uint8_t o1[4096], o2[4096]; int n1, n2;
  int rc1 = assemble_native(raw1, o1, &n1), rc2 = assemble_native(raw2, o2, &n2);
  printf("TEXT1 %s\nTEXT2 %s\nRC %d %d LEN %d %d\n", raw1, raw2, rc1, rc2, n1, n2);
  CHECK(rc1 == rc2 && n1 == n2 && !memcmp(o1, o2, n1), "both spellings assemble to the same bytes");
#endif
#endif
  WITNESS();
}
