/* GLUE engine: the API layer (assemblyline.c, assemble_all and the three
 * assemble_* modes, check_len_or_resize, nop_padding) runs for real; the
 * per-line work is abstracted:
 *
 *   symbolic build: str_to_instr is replaced by a stub that yields one abstract
 *   line per "x\n" (skip / failing / instruction of symbolic length and
 *   symbolic signature bytes), assemble_asm by a stub that checks the
 *   destination range and writes the signature.  The two facts that justify the
 *   abstraction (a line's bytes depend only on text+options; assemble_asm
 *   writes only dest[0..n), n <= LMAX) are ENC verdicts.
 *
 *   replay build: no stub; each abstract line is rendered as a real line of
 *   that length and its signature is what the real library emits for that line
 *   alone on a fresh instance.
 */
#ifndef GLUE_H
#define GLUE_H
#include "vf.h"
#include <assemblyline.h>
#include "instruction_data.h"

#ifndef KMAX
#define KMAX 3            /* abstract lines per program */
#endif
#ifndef LMAX
#define LMAX 13           /* longest instruction the library emits (ENC length lemma, checked by C07) */
#endif
#ifndef NPROG
#define NPROG 3           /* programs per harness */
#endif
#ifndef GBUF
#define GBUF 128
#endif

enum { LK_SKIP = 0, LK_INSTR = 1, LK_FAIL = 2 };

struct aline { uint8_t kind, len; uint8_t sig[LMAX]; };
struct aprog { int n; struct aline l[KMAX]; char text[KMAX * 64 + 8]; };

extern struct aprog G_PROG[NPROG];
extern uint8_t g_buf[GBUF], g_shadow[GBUF];

/* bind program p from inputs IN(in_base ...): n lines (<= KMAX), kinds, lengths;
 * signature bytes are free (symbolic build) or taken from the real library
 * (replay build).  allow_fail: may lines fail. */
void glue_prog(int p, int in_base, int allow_fail, uint8_t opt);
#define GLUE_PROG_INPUTS (1 + 2 * KMAX)

/* the stubs consult these */
extern int g_cur_prog;          /* program being assembled */
extern int g_cur_line;          /* next abstract line */
extern long g_lo, g_hi;         /* permitted destination range [lo,hi) as offsets into the current buffer, checked by the stub */
extern uint8_t *g_base;         /* base the range is relative to */
extern int g_range_violations;  /* replay: counted natively through guard bytes instead */
extern int g_asm_calls;

extern long g_pos[NPROG][KMAX];  /* symbolic build: where the stub last wrote line i of program p */
extern int g_need_reserve;       /* stub also checks the 20-byte reserve rule */
extern long g_buflen;
int glue_is_nop_run(const uint8_t *b, int g);
long glue_find(int p, int i, const uint8_t *buf, long from, long limit);
void glue_begin(int p);          /* call before each assemble call */

/* expected plain code of program p: concatenation of the signatures of its
 * instruction lines up to (excluding) the first failing line */
int glue_plain(int p, uint8_t *out, int *fails_at);
/* number of instruction lines before the first failure */
int glue_count_instr(int p);

void glue_fill(uint8_t *b, uint8_t *shadow, int n);

#endif
