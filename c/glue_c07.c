/* C07 / C15: histories of API calls on an instance attached to a caller buffer.
 *
 * MODE_C07: no call sequence writes outside [buffer, buffer+n) or before the
 *           starting offset of the call being executed; an instruction is
 *           written only while the documented 20 reserve bytes remain.
 * MODE_C15: after an arbitrary history, once options/chunk/offset are what a
 *           fresh instance is given, the final call behaves as on the fresh
 *           instance (return value, final offset, bytes).
 */
#include "glue.h"
#ifndef H
#define H 3
#endif
#ifndef CMAX
#define CMAX 8
#endif
#define IN_STEP(i) (8 + 4 * (i))
#define IN_PROG(i) (8 + 4 * (H + 1) + (i) * GLUE_PROG_INPUTS)

static uint8_t g_buf2[GBUF];

static void copy_shadow(void) { for (int i = 0; i < GBUF; i++) g_shadow[i] = g_buf[i]; }

static void frame(long lo, long hi, const char *why) {
  /* bytes of the whole array outside [lo,hi) unchanged since the last copy_shadow() */
  (void)why;
#ifdef VF_CBMC
  unsigned j = nondet_uint(); __CPROVER_assume(j < GBUF);
  if ((long)j < lo || (long)j >= hi) CHECK(g_buf[j] == g_shadow[j], "no byte before the call's start offset or beyond the buffer end is modified");
#else
  for (long j = 0; j < GBUF; j++) if (j < lo || j >= hi) CHECK(g_buf[j] == g_shadow[j], "no byte before the call's start offset or beyond the buffer end is modified");
#endif
}

#if !defined(VF_CBMC) && defined(MODE_C07)
/* replay build: the symbolic build checks the reserve rule inside the
 * assemble_asm stub; here the real encoder runs, so the positions of the
 * program's instructions are recovered from the buffer afterwards */
static void native_reserve(int p, long entry, long n) {
  long from = entry;
  for (int i = 0; i < KMAX; i++) {
    if (i >= G_PROG[p].n) break;
    struct aline *l = &G_PROG[p].l[i];
    if (l->kind == LK_FAIL) break;
    if (l->kind != LK_INSTR) continue;
    long at = glue_find(p, i, g_buf, from, GBUF);
    if (at < 0) break;
    CHECK(at + 20 <= n, "an instruction is written only while the documented 20 reserve bytes remain");
    from = at + l->len;
  }
}
#else
#define native_reserve(p, entry, n) ((void)0)
#endif

void harness(void) {
  unsigned long n = IN(0);
  ASSUME(n <= GBUF);
  glue_fill(g_buf, g_shadow, GBUF);
  assemblyline_t al = asm_create_instance(g_buf, (int)n);
  ASSUME(al != NULL);
  g_base = g_buf; g_hi = (long)n; g_buflen = (long)n;
#ifdef MODE_C07
  g_need_reserve = 1;
#endif
  /* spec view of the chunk setting: fitting enabled with size fit_c, or off */
  unsigned long fit_c = 0;
  for (int i = 0; i < H; i++) glue_prog(i, IN_PROG(i), 1, al->assembly_opt);
#ifdef MODE_C15
  glue_prog(H, IN_PROG(H), 1, al->assembly_opt);
#endif
  /* the history starts from an arbitrary reachable state: any offset in [0,n]
   * and fitting off or on (both are settable by one API call each, so this
   * costs no history steps) */
  {
    unsigned long k0 = IN(7), f0 = IN(IN_STEP(H) + 2);
    ASSUME(k0 <= n && f0 < 2);
    asm_set_offset(al, (int)k0);
#ifdef CFIX
    if (f0) { asm_set_chunk_size(al, CFIX); fit_c = CFIX; }
#endif
  }
  VF_REGION();
  for (int i = 0; i < H; i++) {
    unsigned long op = IN(IN_STEP(i)), a = IN(IN_STEP(i) + 1);
    ASSUME(op < 5);
    copy_shadow();
    switch (op) {
    case 0: /* chunk size */
#ifdef CFIX
      ASSUME(a == CFIX || a < 2);
      if (a >= 2) a = CFIX;
#endif
      ASSUME(a <= CMAX);
      asm_set_chunk_size(al, a);
      fit_c = a >= 2 ? a : 0;
      break;
    case 1: /* offset within [0,n] */
      ASSUME(a <= n);
      asm_set_offset(al, (int)a);
      break;
    case 2: { /* plain / fitting assembly */
      long entry = asm_get_offset(al);
      g_lo = entry;
      glue_begin(i);
      int rc = asm_assemble_str(al, G_PROG[i].text);
      CHECK(rc == EXIT_SUCCESS || rc == EXIT_FAILURE, "documented return value");
      frame(entry, (long)n, "assemble");
      native_reserve(i, entry, (long)n);
      break; }
    case 3: { /* counting call */
#ifdef MODE_C07
      ASSUME(fit_c == 0);           /* documented for instances without fitting */
#endif
#ifdef CFIX
      /* the counting call's own chunk size: CFIX, or another constant CFIX2 */
#ifndef CFIX2
#define CFIX2 CFIX
#endif
      ASSUME(a == CFIX || a == CFIX2 || a < 2);
      if (a >= 2) a = (a == CFIX2) ? CFIX2 : CFIX;
#endif
      ASSUME(a <= CMAX);
      long entry = asm_get_offset(al);
      int cnt = 0;
      g_lo = entry;
      glue_begin(i);
      int rc = asm_assemble_string_counting_chunks(al, G_PROG[i].text, (int)a, &cnt);
      CHECK(rc == EXIT_SUCCESS || rc == EXIT_FAILURE, "documented return value");
      frame(entry, (long)n, "counting");
      native_reserve(i, entry, (long)n);
      break; }
    case 4: { /* another instance is created and destroyed meanwhile */
      assemblyline_t o = asm_create_instance(g_buf2, GBUF);
      ASSUME(o != NULL);
      asm_set_all(o, (enum asm_opt)(a % 3));
      asm_destroy_instance(o);
      break; }
    }
  }
#ifdef MODE_C15
  /* explicit settings, then the same final call on A (with history) and on a fresh B */
  unsigned long mv = IN(1), sw = IN(2), nb = IN(3), k = IN(4), setc = IN(5), cfinal = IN(6);
#ifdef CFIX
  ASSUME(cfinal == CFIX || cfinal < 2);
  if (cfinal >= 2) cfinal = CFIX;
#endif
  ASSUME(mv < 3 && sw < 2 && nb < 2 && k <= n && setc < 2 && cfinal <= CMAX);
  asm_mov_imm(al, (enum asm_opt)mv); asm_sib_index_base_swap(al, (enum asm_opt)sw); asm_sib_no_base(al, (enum asm_opt)nb);
  if (setc) { asm_set_chunk_size(al, cfinal); fit_c = cfinal >= 2 ? cfinal : 0; }
  asm_set_offset(al, (int)k);
  copy_shadow();
  for (int i = 0; i < GBUF; i++) g_buf2[i] = g_buf[i];
  g_lo = (long)k;
  glue_begin(H);
  int rcA = asm_assemble_str(al, G_PROG[H].text);
  long endA = asm_get_offset(al);
  frame((long)k, (long)n, "final");          /* a failed or successful call leaves [0,k) intact */
  assemblyline_t B = asm_create_instance(g_buf2, (int)n);
  ASSUME(B != NULL);
  asm_mov_imm(B, (enum asm_opt)mv); asm_sib_index_base_swap(B, (enum asm_opt)sw); asm_sib_no_base(B, (enum asm_opt)nb);
  if (fit_c) asm_set_chunk_size(B, fit_c);    /* the current chunk setting */
  asm_set_offset(B, (int)k);
  g_base = g_buf2;
  glue_begin(H);
  int rcB = asm_assemble_str(B, G_PROG[H].text);
  long endB = asm_get_offset(B);
  CHECK(rcA == rcB, "same return value as on a fresh instance with the same options, chunk setting and offset");
  if (rcA == EXIT_SUCCESS && rcB == EXIT_SUCCESS) {
    CHECK(endA == endB, "same resulting offset as on a fresh instance");
#ifdef VF_CBMC
    unsigned q = nondet_uint(); __CPROVER_assume(q < GBUF);
    if ((long)q >= (long)k && (long)q < endB) CHECK(g_buf[q] == g_buf2[q], "same bytes as on a fresh instance");
#else
    for (long q = (long)k; q < endB && q < GBUF; q++) CHECK(g_buf[q] == g_buf2[q], "same bytes as on a fresh instance");
#endif
  }
#endif
  WITNESS();
}
