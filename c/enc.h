/* ENC engine helpers: abstract registers/memory operands, the str_to_reg and
 * strtoul contract stubs, and the comparison of a decoded instruction with the
 * abstract instruction that was written.  See DESIGN.md 3.2. */
#ifndef ENC_H
#define ENC_H
#include "vf.h"
#include "x86dec.h"
#include <assemblyline.h>
#include "instruction_data.h"

struct areg { uint8_t rc, num; };
struct amem {
  uint8_t has_base, has_index, has_disp, asize;
  struct areg base, index;
  uint8_t scale;
  int64_t disp;       /* signed written displacement */
};

#define CM(rc) (1u << (rc))
#define CM_GPR8ALL (CM(RC_GPR8) | CM(RC_GPR8H))
#define CM_GPRV (CM(RC_GPR16) | CM(RC_GPR32) | CM(RC_GPR64))
#define CM_GPRALL (CM_GPR8ALL | CM_GPRV)

#define VF_NSLOT 6
#define VF_NNUM 3
extern unsigned VF_SYM[VF_NSLOT];       /* asm_reg value each register placeholder stands for */
extern unsigned long VF_NUM[VF_NNUM];   /* magnitude each literal placeholder stands for */
extern uint8_t VF_NUMDEC[VF_NNUM];      /* 1: placeholder is spelled in decimal with >= 2 digits; 2: one decimal digit */

#define BUFN 72
#ifndef VF_START
#define VF_START 3
#endif
extern uint8_t vf_buf[BUFN], vf_shadow[BUFN];

/* independent table of the library's register representation (enums.h):
 * mode bits | register number */
unsigned vf_regval(struct areg r);
const char *vf_regname(struct areg r);
int vf_regsize(struct areg r);                 /* 8,16,32,64,(64 mm),128,256 */
int vf_is_gpr(struct areg r);
struct areg vf_any_reg(int in_rc, int in_num, unsigned class_mask);
/* does the register force a REX prefix / forbid one */
int vf_needs_rex(struct areg r);
int vf_is_high(struct areg r);

assemblyline_t vf_instance(int in_base, int *start);     /* uses IN(in_base..in_base+3) */
void vf_frame_check(assemblyline_t al, int start, int end, int rc);

int vf_chk_reg(const struct xopd *o, struct areg r);
int vf_chk_mem(const struct xopd *o, const struct amem *m);
int vf_chk_mem_literal_sp_index(const struct xopd *o, const struct amem *m);
int vf_mem_needs_rex(const struct amem *m);
/* sign-extended decoded immediate equals the written 64-bit pattern at width w */
int vf_chk_imm(const struct xopd *o, unsigned long written, int w);
int vf_representable(unsigned long written, int w, int sext32);

/* replay-side text building */
void vf_fmt_num(char *dst, int k, int style);  /* style: 0 hex short, 1 hex 16 digits, 2 decimal */

extern uint8_t vf_opt_mv, vf_opt_sw, vf_opt_nb;
#endif
