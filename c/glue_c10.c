/* C10 (position and mode): a rejected line makes the call return
 * EXIT_FAILURE wherever it stands in the program and in every assemble mode,
 * and no byte is emitted for it or after it. */
#include "glue.h"
void harness(void) {
  unsigned long n = IN(0), start = IN(1), mode = IN(2);
  ASSUME(n == GBUF && start <= 8 && mode < 3);
  glue_fill(g_buf, g_shadow, GBUF);
  assemblyline_t al = asm_create_instance(g_buf, (int)n);
  ASSUME(al != NULL);
  glue_prog(0, 8, 1, al->assembly_opt);
  VF_REGION();
  int fa; uint8_t plain[KMAX * LMAX];
  int good = glue_plain(0, plain, &fa);
  ASSUME(fa >= 0);                       /* some line of the program is rejected */
  if (mode == 1) asm_set_chunk_size(al, CFIX);
  asm_set_offset(al, (int)start);
  g_base = g_buf; g_lo = (long)start; g_hi = (long)n;
  glue_begin(0);
  int cnt = 0;
  int rc = mode == 2 ? asm_assemble_string_counting_chunks(al, G_PROG[0].text, CFIX, &cnt) : asm_assemble_str(al, G_PROG[0].text);
  CHECK(rc == EXIT_FAILURE, "a program containing a rejected line makes the call return EXIT_FAILURE, wherever the line stands and in every mode");
  /* nothing is emitted for the rejected line or after it: only the
   * instructions before it (and, with fitting, their padding) may have been written */
  long limit = (long)start + good + (mode == 1 ? (long)fa * (CFIX - 1) : 0);
#ifdef VF_CBMC
  unsigned j = nondet_uint(); __CPROVER_assume(j < GBUF);
  if ((long)j < (long)start || (long)j >= limit) CHECK(g_buf[j] == g_shadow[j], "no code is emitted for the rejected line or after it");
#else
  for (long j = 0; j < GBUF; j++) if (j < (long)start || j >= limit) CHECK(g_buf[j] == g_shadow[j], "no code is emitted for the rejected line or after it");
#endif
  for (int i = 0; i < KMAX; i++)
    if (i > fa && i < G_PROG[0].n) CHECK(g_pos[0][i] == -1, "no line after the rejected one is assembled");
  WITNESS();
}
