/* Reference decoder for the x86-64 subset AssemblyLine documents.
 * Written from the Intel SDM opcode maps; it does not read anything from
 * /repo.  Compiled by goto-cc into the harnesses and by gcc for replay and for
 * its own validation against nasm/objdump (tools/validate_x86dec.py). */
#ifndef X86DEC_H
#define X86DEC_H
#include <stdint.h>

enum xkind { XK_NONE = 0, XK_REG, XK_MEM, XK_IMM, XK_REL };
/* register classes */
enum xrc { RC_GPR8 = 1, RC_GPR8H, RC_GPR16, RC_GPR32, RC_GPR64, RC_MM, RC_XMM, RC_YMM };

struct xopd {
  uint8_t kind;
  uint8_t rc, num;                 /* XK_REG */
  uint8_t has_base, base, has_index, index, scale, asize, riprel; /* XK_MEM */
  uint16_t msize;                  /* access width in bits, 0 = no access width (lea, prefetch, clflush) */
  int64_t disp;                    /* sign-extended displacement */
  int64_t imm;                     /* XK_IMM / XK_REL: sign-extended field (zero-ext for I_v 64) */
  uint8_t immw;                    /* width of encoded field in bits, 0 = implicit */
};

struct xinsn {
  uint16_t op;
  uint8_t nopd;
  uint8_t osize;                   /* operation size in bits for integer forms, 0 otherwise */
  uint8_t len;
  uint8_t vex, vexl, rexw, has_rex, p66, p67;
  uint8_t far;                     /* far indirect jmp/call */
  uint8_t nop90;                   /* opcode 90 with rAX twice, reported as xchg on request */
  uint8_t nrows;                   /* table rows that matched (must be 1) */
  struct xopd opd[4];
};

/* canonical operation ids */
enum xop {
  XOP_INVALID = 0,
  XOP_ADD, XOP_OR, XOP_ADC, XOP_SBB, XOP_AND, XOP_SUB, XOP_XOR, XOP_CMP, /* order = opcode>>3 */
  XOP_ROL, XOP_ROR, XOP_RCL, XOP_RCR, XOP_SHL, XOP_SHR, XOP_SAL_ALIAS, XOP_SAR, /* order = /digit */
  XOP_TEST, XOP_NOT, XOP_NEG, XOP_MUL, XOP_IMUL, XOP_DIV, XOP_IDIV,
  XOP_INC, XOP_DEC, XOP_CALL, XOP_JMP, XOP_PUSH, XOP_POP,
  XOP_MOV, XOP_LEA, XOP_XCHG, XOP_MOVZX, XOP_NOP, XOP_RET, XOP_CLC, XOP_CPUID,
  XOP_RDTSC, XOP_RDTSCP, XOP_RDPMC, XOP_LFENCE, XOP_MFENCE, XOP_SFENCE, XOP_CLFLUSH,
  XOP_PREFETCHNTA, XOP_PREFETCHT0, XOP_PREFETCHT1, XOP_PREFETCHT2,
  XOP_SHLD, XOP_SHRD, XOP_JRCXZ, XOP_XABORT, XOP_XBEGIN, XOP_XEND,
  XOP_ADCX, XOP_ADOX, XOP_BEXTR, XOP_BZHI, XOP_MULX, XOP_RORX, XOP_SARX, XOP_SHLX, XOP_SHRX,
  XOP_MOVD, XOP_MOVQ, XOP_MOVNTDQA, XOP_MOVNTQ, XOP_CVTDQ2PD, XOP_CVTPD2DQ,
  XOP_DIVPD, XOP_MULPD, XOP_ADDPD, XOP_SUBPD, XOP_PUNPCKLQDQ, XOP_PSRLDQ,
  XOP_PADDB, XOP_PADDW, XOP_PADDD, XOP_PADDQ, XOP_PAND, XOP_PANDN, XOP_POR, XOP_PXOR,
  XOP_PSUBB, XOP_PSUBW, XOP_PSUBD, XOP_PSUBQ,
  XOP_PMULHUW, XOP_PMULHW, XOP_PMULLW, XOP_PMULUDQ, XOP_PMULHRSW, XOP_PMULLD, XOP_PMULDQ,
  XOP_MOVUPD, XOP_MOVDQU, XOP_PERMD, XOP_PERM2I128, XOP_PERM2F128,
  XOP_JCC = 0x100,    /* + condition code 0..15 */
  XOP_CMOVCC = 0x110,
  XOP_SETCC = 0x120
};

/* decode one instruction from p[0..avail).  Returns its length (1..15) or -1
 * when the bytes are not one instruction of the subset. */
int x86dec(const uint8_t *p, int avail, struct xinsn *out);
/* same, scanning only the table rows that can decode to operation `want`
 * (0 = all rows); returns -1 if the bytes are not that operation */
int x86dec_want(const uint8_t *p, int avail, struct xinsn *out, int want);

#endif
