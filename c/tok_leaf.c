/* TOK unit 3: each scanner function on an arbitrary string of at most LEAFLEN
 * characters placed at offset 1 or flush against the end (LEAF_ANY_OFFSET: at
 * an arbitrary offset >= 1) of a FILTERED_STR_LEN buffer
 * (the way operand_tok hands operands to them), with every CBMC memory-safety,
 * overflow and unwinding check enabled.  Postconditions that callers rely on
 * are asserted too. */
#include "vf.h"
#include <assemblyline.h>
#include "instruction_data.h"
#include "common.h"
#include "enums.h"
#include "reg_parser.h"
#include "instr_parser.h"
#ifndef LEAFLEN
#define LEAFLEN 12
#endif
int __CPROVER_file_local_tokenizer_c_mem_tok(struct instr *instr_buffer, char *mem, int opd_pos);
void __CPROVER_file_local_tokenizer_c_imm_tok(struct instr *instr_buffer, char *imme);
void __CPROVER_file_local_tokenizer_c_check_for_keyword(struct instr *instr_buffer, char *all_opd, int opd_pos);
static char arr[FILTERED_STR_LEN];

void harness(void) {
  unsigned long off = IN(0), len = IN(1), pos = IN(2);
  ASSUME(len <= LEAFLEN && off >= 1 && off < FILTERED_STR_LEN && off + len < FILTERED_STR_LEN && pos < NUM_OF_OPD);
#if defined(LEN_FIX) && defined(PLACE)
  /* one query per string length and placement: every offset is then a constant
   * and only the characters are symbolic (symbolic offsets into the line buffer
   * made the keyword scanner's formula exceed 14 GB).  Two placements decide
   * memory safety for every placement: directly after the first byte of the
   * buffer (a read of s[-k], k >= 2, leaves the array) and flush against its
   * end (a read beyond the terminator leaves the array); a placement in
   * between is strictly more permissive than both. */
  ASSUME(len == LEN_FIX && off == (PLACE ? FILTERED_STR_LEN - 1 - LEN_FIX : 1));
  len = LEN_FIX; off = PLACE ? FILTERED_STR_LEN - 1 - LEN_FIX : 1;
#elif !defined(LEAF_ANY_OFFSET)
  ASSUME(off == 1 || off + len == FILTERED_STR_LEN - 1);
#endif
  for (int i = 0; i < FILTERED_STR_LEN; i++) {
    unsigned long b = IN(4 + i);
    ASSUME(b <= 0x7e && b != 0);          /* the filter passes printable ASCII only */
    arr[i] = (char)b;
  }
  arr[off + len] = 0;
  char *s = arr + off;
  struct instr ins; memset(&ins, 0, sizeof ins);
  VF_REGION();
#if defined(T_REGSTR)
  get_reg_str(s, ins.opd[pos].str);
  CHECK(ins.opd[pos].str[MAX_REG_LEN - 1] == 0, "the copied register name stays NUL-terminated inside its field");
#elif defined(T_ADD)
  bool neg = 0; int base = 0; int r = find_add_mem(s, &neg, &base);
  CHECK(r == NA || (r >= 1 && r <= (int)len), "displacement position lies inside the operand");
  CHECK(base == RADIX_16 || base == RADIX_10, "a conversion base is always chosen");
#elif defined(T_CONST)
  bool neg = 0; int base = RADIX_16; int r = find_mem_const(s, &neg, &base);
  CHECK(r == NA || (r >= 1 && r <= (int)len), "constant position lies inside the operand");
#elif defined(T_INDEX)
  ASSUME(len >= 1);
  unsigned r = get_index_reg(&ins, s, ins.opd[pos].sib);
  CHECK(r == EXIT_SUCCESS || r == EXIT_FAILURE, "documented result");
  CHECK(ins.opd[pos].sib[MAX_REG_LEN - 1] == 0, "the copied index name stays NUL-terminated inside its field");
#elif defined(T_TYPE)
  char t = get_operand_type(s);
  CHECK(t == 'm' || t == 'r' || t == 'v' || t == 'y' || t == 'i' || t == 'e', "operand type letter");
  /* what imm_tok relies on (it takes the first blank-separated token of the
   * operand and reads it): an operand typed as immediate has a non-blank character */
  if (t == 'i') {
    int nonblank = 0;
    for (int i = 0; i < LEAFLEN; i++) if ((unsigned long)i < len && s[i] != ' ') nonblank = 1;
    CHECK(nonblank, "an operand typed as immediate contains a non-blank character (imm_tok's precondition)");
  }
#elif defined(T_KW)
  __CPROVER_file_local_tokenizer_c_check_for_keyword(&ins, s, (int)pos);
  CHECK(s[len] == 0, "keyword removal keeps the terminator");
#elif defined(T_MEMTOK)
  ASSUME(len >= 1);
  (void)__CPROVER_file_local_tokenizer_c_mem_tok(&ins, s, (int)pos);
  CHECK(ins.mem_index < NUM_OF_OPD, "memory operand index in range");
#elif defined(T_IMMTOK)
  ASSUME(len >= 1 && s[0] != ' ');
  __CPROVER_file_local_tokenizer_c_imm_tok(&ins, s);
#elif defined(T_INSTRKEY)
  /* the mnemonic lookup on an arbitrary token whose first character is the
   * constant FIRST (one query per character the filter can deliver at the start
   * of a line: 0x5b..0x7a, i.e. '['..'z'; it lower-cases 'A'..'Z' and skips
   * everything else in its BEGIN state).  With the first character constant the
   * table walk starts at a constant row, so the walk itself is concrete and the
   * string comparisons carry the symbolic rest of the token. */
#ifndef FIRST
#define FIRST 'a'
#endif
  ASSUME(len >= 1 && len <= 12);
  {
    static uint8_t b[32];
    assemblyline_t al = asm_create_instance(b, 32);
    ASSUME(al != NULL);
    unsigned long lay = IN(3);
    ASSUME(lay <= 40);
    char name[INSTRUCTION_CHAR_LEN];
    for (int i = 0; i < INSTRUCTION_CHAR_LEN; i++) name[i] = (unsigned long)i < len ? s[i] : 0;
    name[0] = (char)FIRST;
    int key = str_to_instr_key(name, (operand_format)lay);
    CHECK(key == INSTR_ERROR || key >= 3, "lookup result is an error or a table row");
  }
#elif defined(T_STRTOREG)
  ASSUME(len <= 5);
  unsigned v = str_to_reg(s);
  CHECK((v & reg_error) || v == reg_none || (v & REG_MASK) == (v & 0x1f), "register value or error");
#endif
  WITNESS();
}
