/* C08: the library-managed buffer grows transparently (no OS failure here; the
 * growth quantum MEM_BUFFER is scaled down by the build wrapper so that several
 * growth steps fit the model; see DESIGN.md).  The same calls go to an instance
 * on a large caller buffer; offsets and bytes must agree. */
#include "vf_os.h"
#include "glue.h"
#include "common.h"
#ifndef NCALLS
#define NCALLS 2
#endif
#ifndef BIG
#define BIG 240
#endif
static uint8_t big[BIG];
#ifndef VF_CBMC
static uint8_t wr[BIG];
#endif
assemblyline_t g_al;

static int one_call(assemblyline_t a, int p, int mode, unsigned long c, int *cnt) {
  if (mode == 2) return asm_assemble_string_counting_chunks(a, G_PROG[p].text, (int)c, cnt);
  return asm_assemble_str(a, G_PROG[p].text);
}

void harness(void) {
  os_schedule(40);
  for (int k = 0; k < OS_NKIND; k++) ASSUME(os_fail_at[k] == 0);
  unsigned long mode = IN(0), c = IN(1);
  ASSUME(mode < 3);
#ifdef MODEFIX
  ASSUME(mode == MODEFIX); mode = MODEFIX;
#endif
#ifdef CFIX
  ASSUME(c == CFIX); c = CFIX;
#else
  ASSUME(c == 0);
#endif
  assemblyline_t A = asm_create_instance(NULL, 0);
  CHECK(A != NULL, "an instance with a library-managed buffer is created");
  if (A == NULL) return;
  CHECK((os_last_prot & (PROT_READ | PROT_WRITE | PROT_EXEC)) == (PROT_READ | PROT_WRITE | PROT_EXEC), "the managed buffer is readable, writable and executable");
  glue_fill(big, NULL, BIG);
  assemblyline_t B = asm_create_instance(big, BIG);
  ASSUME(B != NULL);
  g_al = A;
  if (mode == 1) { asm_set_chunk_size(A, c); asm_set_chunk_size(B, c); }
  for (int i = 0; i < NCALLS; i++) glue_prog(i, 8 + i * GLUE_PROG_INPUTS, 0, A->assembly_opt);
  VF_REGION();
  for (int i = 0; i < NCALLS; i++) {
    unsigned long off = IN(2 + i);
    /* any position inside what is currently allocated */
    ASSUME(off <= (unsigned long)A->buffer_len && off + KMAX * LMAX + 2 * BUFFER_TOLERANCE < BIG);
    asm_set_offset(A, (int)off); asm_set_offset(B, (int)off);
    int ca = -1, cb = -1;
    g_base = NULL;
    glue_begin(i);
    int ra = one_call(A, i, (int)mode, c, &ca);
    long posA[KMAX];
    for (int l = 0; l < KMAX; l++) posA[l] = g_pos[i][l];
    g_base = big; g_lo = (long)off; g_hi = BIG;
    glue_begin(i);
    int rb = one_call(B, i, (int)mode, c, &cb);
#ifdef VF_CBMC
    if (ra == EXIT_SUCCESS && rb == EXIT_SUCCESS)
      for (int l = 0; l < KMAX; l++)
        if (l < G_PROG[i].n && G_PROG[i].l[l].kind == LK_INSTR)
          CHECK(posA[l] == g_pos[i][l], "every instruction lands at the same offset as on a large caller buffer");
#endif
    CHECK(rb == EXIT_SUCCESS, "reference instance on a large caller buffer succeeds");
    CHECK(ra == EXIT_SUCCESS, "assembly on the managed buffer succeeds whatever its current size");
    if (ra == EXIT_SUCCESS && rb == EXIT_SUCCESS) {
      CHECK(asm_get_offset(A) == asm_get_offset(B), "same offset as on a large caller buffer");
      CHECK(ca == cb, "same chunk count as on a large caller buffer");
      CHECK(asm_get_offset(A) + BUFFER_TOLERANCE <= A->buffer_len + MEM_BUFFER, "the buffer has grown to hold the code");
      uint8_t *code = asm_get_code(A);
      int end = asm_get_offset(A);
#ifdef VF_CBMC
      CHECK(code == os_code_base(), "asm_get_code returns the current address of the managed buffer");
      CHECK((unsigned)A->buffer_len == os_anon_len, "the recorded buffer length is the size of the mapping");
      /* contents: the byte at the model's nondeterministic probe offset (it stands for every offset), if the calls so far wrote it */
      if (os_probe_ref_set && os_probe_q < (unsigned)end) {
        unsigned char got = 0;
        int okp = os_probe_read(code, &got);
        CHECK(okp && got == os_probe_ref, "the managed buffer holds the same bytes as the reference: growth preserves what was written earlier");
      }
#else
      for (int q = (int)off; q < end; q++) wr[q] = 1;
      for (int q = 0; q < BIG; q++) if (wr[q]) CHECK(code[q] == big[q], "the managed buffer holds the same bytes as the reference: growth preserves what was written earlier");
#endif
    }
  }
  CHECK(asm_destroy_instance(A) == EXIT_SUCCESS, "the instance can be destroyed");
  WITNESS();
}
