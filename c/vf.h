/* Harness runtime shared by every engine.
 *
 * The same harness source is compiled twice:
 *   - by goto-cc (VF_CBMC defined): IN(i) is a fresh symbolic value that is
 *     also recorded in VF_IN[i] so the counterexample trace names it;
 *   - by gcc for replay: IN(i) is read from the command line ("i=value"),
 *     stubs are absent, and CHECK failures are printed.
 */
#ifndef VF_H
#define VF_H
#include <stdint.h>
#include <stdlib.h>
#include <string.h>
#include <stdio.h>

#define VF_NIN 320
extern unsigned long VF_IN[VF_NIN];

#ifdef VF_CBMC
unsigned long nondet_ulong(void);
unsigned char nondet_uchar(void);
unsigned nondet_uint(void);
int nondet_int(void);
/* the value is read back from VF_IN so that formula slicing keeps the store
 * and the counterexample trace names the input */
static inline unsigned long vf_in(int i) { VF_IN[i] = nondet_ulong(); return VF_IN[i]; }
#define IN(i) vf_in(i)
#define ASSUME(c) __CPROVER_assume(c)
#define CHECK(c, msg) __CPROVER_assert((c), "VF " msg)
#define WITNESS() __CPROVER_assert(0, "WITNESS reachable")
#define VF_SYMBOLIC 1
#else
extern int vf_failed;
#define IN(i) (VF_IN[i])
#define ASSUME(c) do { if (!(c)) { printf("ASSUME-FALSE %s\n", #c); exit(3); } } while (0)
#define CHECK(c, msg) do { if (!(c)) { printf("CHECK-FAILED %s\n", msg); vf_failed = 1; } } while (0)
#define WITNESS() do { } while (0)
#define VF_SYMBOLIC 0
#endif

/* known-finding regions: VF_EXCLUDE is a C expression over the harness's
 * variables (or 0).  Harnesses call VF_REGION() once all inputs are bound. */
#ifndef VF_EXCLUDE
#define VF_EXCLUDE 0
#endif
#ifndef VF_ONLY
#define VF_ONLY 1
#endif
#define VF_REGION() do { ASSUME(!(VF_EXCLUDE)); ASSUME(VF_ONLY); } while (0)

void harness(void);

#endif
