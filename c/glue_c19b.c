/* C19 (second part) and C17 (binary output): asm_create_bin_file writes exactly
 * the bytes [0, offset) and reports success only if all of them reached the
 * file and the file was closed successfully.  The file is an object with
 * arbitrary previous contents (0..OS_PREV_NATIVE bytes): afterwards its length
 * is the offset and its bytes are the code, whatever was there before. */
#include "vf_os.h"
#include "vf.h"
#include <assemblyline.h>
#include "instruction_data.h"
#ifndef BMAX
#define BMAX 24
#endif
static uint8_t buf1[64];

void harness(void) {
  unsigned long off = IN(0);
  ASSUME(off <= BMAX);
  os_schedule(8);
#ifndef WITH_FAULTS
  for (int k = 0; k < OS_NKIND; k++) ASSUME(os_fail_at[k] == 0);
#endif
  for (int i = 0; i < 64; i++) {
#ifdef VF_CBMC
    buf1[i] = nondet_uchar();
#else
    buf1[i] = (uint8_t)(i * 7 + 1);
#endif
  }
  VF_REGION();
  assemblyline_t al = asm_create_instance(buf1, sizeof buf1);
  ASSUME(al != NULL);
  asm_set_offset(al, (int)off);
  char path[64];
#ifdef VF_CBMC
  strcpy(path, "out.bin");
#else
  snprintf(path, sizeof path, "/tmp/vf-c19b-%d.bin", (int)getpid());
#endif
#ifndef VF_CBMC
  /* the file exists beforehand with OS_PREV_NATIVE bytes of other contents */
  { FILE *pf = (fopen)(path, "wb"); if (pf) { for (unsigned i = 0; i < os_file_prev_len; i++) fputc(0xee, pf); (fclose)(pf); } }
#endif
  int rc = asm_create_bin_file(al, path);
#ifndef VF_CBMC
  /* the replay looks at the real file: its length and its bytes */
  { FILE *rf = (fopen)(path, "rb"); unsigned char fb[256]; size_t n = rf ? fread(fb, 1, sizeof fb, rf) : 0; if (rf) (fclose)(rf);
    os_file_len = (unsigned)n; for (unsigned i = 0; i < 64 && i < n; i++) os_written[i] = fb[i]; }
#endif
  CHECK(rc == EXIT_SUCCESS || rc == EXIT_FAILURE, "documented return value");
  int complete = os_written_n == (unsigned)off && os_file_len == (unsigned)off && os_fclose_ok && !os_fopen_live;
  for (unsigned i = 0; i < BMAX; i++)
    if (i < off) { if (os_written[i] != buf1[i]) complete = 0; }
  if (rc == EXIT_SUCCESS)
    CHECK(complete, "EXIT_SUCCESS only if the complete code [0, offset) reached the file and it was closed");
#ifndef WITH_FAULTS
  CHECK(rc == EXIT_SUCCESS, "without OS failures the binary file is written");
#endif
  CHECK(!os_fopen_live || os_calls[OS_FOPEN] == 0 || os_fail_at[OS_FOPEN] == 1, "the file is closed");
#ifndef VF_CBMC
  unlink(path);
#endif
  WITNESS();
}
