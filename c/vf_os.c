#include "vf_os.h"
#include "vf.h"
#include <stdarg.h>
#include <errno.h>

#ifndef OS_MAXOBJ
#define OS_MAXOBJ 256
#endif
/* address space of the managed code mappings: OS_NGEN disjoint slots of
 * OS_SHIFT bytes in one arena object; every anonymous executable mmap and every
 * moving mremap takes the next slot, so that a stale address is never a valid
 * address of the live mapping */
#define OS_SHIFT 256
#define OS_NGEN 8
unsigned os_fail_at[OS_NKIND], os_calls[OS_NKIND];
int os_failed_any, os_last_prot;
unsigned os_mremap_moves, os_short_write;
unsigned os_file_size;
unsigned char os_file[OS_MAXFILE + 1];
int os_file_exists;
unsigned char *os_map_base;
unsigned os_map_end;
int os_unmapped_ok;
unsigned char os_written[64];
unsigned os_written_n;
int os_fopen_live, os_fclose_ok, os_stream_err;
/* the output file as an object with previous contents: length before the call
 * (arbitrary in the model, OS_PREV_NATIVE bytes in the replay), length and
 * stream position now.  fopen's mode decides what survives: "w" truncates,
 * "a" keeps everything and writes at the end, "r+" keeps everything and
 * overwrites from position 0. */
unsigned os_file_prev_len, os_file_len, os_file_pos;
unsigned os_anon_len, os_gen;
unsigned os_probe_q; unsigned char os_probe_ref; int os_probe_ref_set;
#ifdef VF_CBMC
unsigned char os_arena[OS_NGEN * OS_SHIFT];
static unsigned os_next_slot;
static int os_live[OS_NGEN];
static unsigned os_len[OS_NGEN];
/* contents: one probe byte per slot, the byte at logical offset os_probe_q
 * (a fresh mapping reads as zero, mremap carries it over, the encoder stub and
 * memcpy update it).  os_probe_q is nondeterministic, so it stands for every offset. */
static unsigned char os_probe_val[OS_NGEN];
#endif


void os_schedule(int in_base) {
  for (int k = 0; k < OS_NKIND; k++) {
    unsigned long v = IN(in_base + k);
    ASSUME(v <= 4);
    os_fail_at[k] = (unsigned)v;
    os_calls[k] = 0;
  }
  unsigned long mv = IN(in_base + OS_NKIND), sw = IN(in_base + OS_NKIND + 1);
  ASSUME(mv < 2 && sw < 64);
  os_mremap_moves = (unsigned)mv; os_short_write = (unsigned)sw;
#ifdef VF_CBMC
  os_probe_q = nondet_uint();
  __CPROVER_assume(os_probe_q < OS_SHIFT);
  os_file_prev_len = nondet_uint();
  __CPROVER_assume(os_file_prev_len <= OS_PREV_NATIVE);
#else
  os_file_prev_len = OS_PREV_NATIVE;
#endif
}

static int os_fails(int kind) {
  os_calls[kind]++;
  if (os_fail_at[kind] != 0 && os_calls[kind] == os_fail_at[kind]) { os_failed_any = 1; return 1; }
  return 0;
}

#ifdef VF_CBMC
/* ------------------------------------------------------------------ model */
void *vf_malloc(size_t n) {
  if (os_fails(OS_MALLOC)) return NULL;
  void *p = malloc(n);
  __CPROVER_assume(p != NULL);
  return p;
}
void vf_free(void *p) { free(p); }

void *vf_mmap(void *addr, size_t len, int prot, int flags, int fd, off_t off) {
  (void)off;
  if (len == 0) return MAP_FAILED;          /* EINVAL on Linux */
  if (os_fails(OS_MMAP)) return MAP_FAILED;
  unsigned end = ((unsigned)len + OS_PAGE - 1) / OS_PAGE * OS_PAGE;
  if ((flags & MAP_ANONYMOUS) && (prot & PROT_EXEC)) {
    /* the code buffer lives in one arena object; a moving mremap returns an
     * address OS_SHIFT bytes further on.  Contents are not simulated (mremap
     * preserves them by contract); what the queries decide is that the
     * library asks for the right sizes and uses the address it was given. */
    __CPROVER_assert(len <= OS_MAXOBJ && len <= OS_SHIFT, "model bound: anonymous mapping fits the model object");
    __CPROVER_assert(os_next_slot < OS_NGEN, "model bound: number of code mappings");
    os_last_prot = prot; os_anon_len = (unsigned)len; os_gen = os_next_slot++;
    os_live[os_gen] = 1; os_len[os_gen] = (unsigned)len; os_probe_val[os_gen] = 0;
    return os_code_base();
  }
  if (flags & MAP_ANONYMOUS) {
    __CPROVER_assert(len <= OS_MAXOBJ, "model bound: anonymous mapping fits the model object");
    unsigned char *p = malloc(OS_MAXOBJ);
    __CPROVER_assume(p != NULL);
    /* whole pages are mapped and read as zero; what lies beyond is not mapped */
    for (unsigned i = 0; i < OS_MAXOBJ; i++) p[i] = i < end ? 0 : 0x55;
    os_map_base = p; os_map_end = end;
    return p;
  }
  /* file mapping, either at an address the kernel picks or over an existing
   * mapping (MAP_FIXED) */
  (void)fd;
  unsigned char *p;
  if (flags & MAP_FIXED) {
    __CPROVER_assert((unsigned char *)addr == os_map_base, "model bound: MAP_FIXED only over the reservation made just before");
    p = os_map_base;
  } else {
    p = malloc(OS_MAXOBJ);
    __CPROVER_assume(p != NULL);
    for (unsigned i = 0; i < OS_MAXOBJ; i++) p[i] = 0x55;
    os_map_base = p; os_map_end = 0;
  }
  __CPROVER_assert(end <= OS_MAXOBJ, "model bound: file mapping fits the model object");
  /* pages that hold file bytes are backed; the rest of the last such page
   * reads as zero; pages of the mapping that lie wholly beyond the end of the
   * file are not backed (touching them is SIGBUS): marked like unmapped memory */
  unsigned backed = ((os_file_size < (unsigned)len ? os_file_size : (unsigned)len) + OS_PAGE - 1) / OS_PAGE * OS_PAGE;
  for (unsigned i = 0; i < OS_MAXOBJ; i++) {
    if (i < os_file_size && i < len) p[i] = os_file[i];
    else if (i < backed) p[i] = 0;
    else if (i < end) p[i] = 0x55;
  }
  if ((flags & MAP_FIXED) && end > backed && backed < os_map_end) os_map_end = backed > 0 ? backed : 0;
  if (!(flags & MAP_FIXED)) os_map_end = backed;
  return p;
}

/* slot of an address inside the arena, -1 if it is not the base of a live mapping */
static int os_slot_of_base(const void *p) {
  if (!__CPROVER_same_object(p, os_arena)) return -1;
  unsigned long o = __CPROVER_POINTER_OFFSET(p);
  if (o % OS_SHIFT != 0 || o / OS_SHIFT >= OS_NGEN) return -1;
  return os_live[o / OS_SHIFT] ? (int)(o / OS_SHIFT) : -1;
}

void *vf_mremap(void *old, size_t oldlen, size_t newlen, int flags, ...) {
  (void)flags;
  if (os_fails(OS_MREMAP)) return MAP_FAILED;
  __CPROVER_assert(newlen <= OS_MAXOBJ && newlen <= OS_SHIFT, "model bound: grown mapping fits the model object");
  int g = os_slot_of_base(old);
  __CPROVER_assert(g >= 0, "VF mremap is given the current address of the mapping");
  if (g < 0) return MAP_FAILED;
  __CPROVER_assert(oldlen == os_len[g], "VF mremap is given the current size of the mapping (contract of mremap: old_size)");
  if (os_mremap_moves && os_next_slot < OS_NGEN) {
    int n = (int)os_next_slot++;
    os_live[n] = 1; os_probe_val[n] = os_probe_q < oldlen ? os_probe_val[g] : 0;
    os_live[g] = 0;
    g = n;
  } else if (os_probe_q >= oldlen) os_probe_val[g] = 0;
  os_len[g] = (unsigned)newlen;
  os_gen = (unsigned)g; os_anon_len = (unsigned)newlen;
  return os_code_base();
}

unsigned char *os_code_base(void) { return os_arena + os_gen * OS_SHIFT; }

/* the encoder stub writes len bytes at dest: must lie inside a live code
 * mapping; *off = offset inside it, *slot = which mapping.  (The written byte
 * is handed over by value in os_probe_store: reading it here through a pointer
 * into the abstract program would hit the cbmc defect of c/README-cbmc-bug.txt.) */
int os_code_write(unsigned char *dest, unsigned len, long *off, int *slot) {
  if (!__CPROVER_same_object(dest, os_arena)) return 0;
  unsigned long o = __CPROVER_POINTER_OFFSET(dest);
  unsigned g = (unsigned)(o / OS_SHIFT), w = (unsigned)(o % OS_SHIFT);
  if (g >= OS_NGEN || !os_live[g] || w + len > os_len[g]) return 0;
  *off = (long)w; *slot = (int)g;
  return 1;
}
void os_probe_store(int slot, unsigned char v) { os_probe_val[slot] = v; }

/* byte at logical offset os_probe_q of the mapping at base */
int os_probe_read(const unsigned char *base, unsigned char *out) {
  int g = os_slot_of_base(base);
  if (g < 0 || os_probe_q >= os_len[g]) return 0;
  *out = os_probe_val[g];
  return 1;
}

void *vf_memcpy(void *dst, const void *src, size_t n) {
  if (__CPROVER_same_object(dst, os_arena)) {
    /* a copy between code mappings (only whole-prefix copies base -> base are
     * modelled exactly; anything else makes the probe byte unknown) */
    int gd = os_slot_of_base(dst), gs = os_slot_of_base(src);
    __CPROVER_assert(gd >= 0 && n <= os_len[gd], "VF memcpy into a code mapping stays inside it");
    if (gd >= 0 && os_probe_q < n) {
      if (gs >= 0 && n <= os_len[gs]) os_probe_val[gd] = os_probe_val[gs];
      else os_probe_val[gd] = nondet_uchar();
    }
    return dst;
  }
  unsigned char *d = dst; const unsigned char *s = src;
  for (size_t i = 0; i < n; i++) d[i] = s[i];
  return dst;
}

int vf_munmap(void *p, size_t len) {
  if (os_fails(OS_MUNMAP)) return -1;
  if (__CPROVER_same_object(p, os_arena)) {
    int g = os_slot_of_base(p);
    __CPROVER_assert(g >= 0 && len == os_len[g], "VF munmap is given the current address and size of the code mapping");
    if (g >= 0) os_live[g] = 0;
    return 0;
  }
  if (p == (void *)os_map_base) os_unmapped_ok = (len != 0);
  free(p);
  return 0;
}

int vf_open(const char *path, int flags, ...) {
  (void)path; (void)flags;
  if (!os_file_exists) return -1;
  if (os_fails(OS_OPEN)) return -1;
  return 3;
}
int vf_fstat(int fd, struct stat *st) {
  (void)fd;
  if (os_fails(OS_FSTAT)) return -1;
  st->st_size = os_file_size;
  return 0;
}
int vf_close(int fd) { (void)fd; if (os_fails(OS_CLOSE)) return -1; return 0; }

static FILE *os_fake_file;
FILE *vf_fopen(const char *path, const char *mode) {
  (void)path;
  if (os_fails(OS_FOPEN)) return NULL;
  os_fake_file = malloc(sizeof(int));
  __CPROVER_assume(os_fake_file != NULL);
  os_fopen_live = 1; os_written_n = 0; os_stream_err = 0;
  if (mode[0] == 'w') { os_file_len = 0; os_file_pos = 0; }
  else if (mode[0] == 'a') { os_file_len = os_file_prev_len; os_file_pos = os_file_prev_len; }
  else { os_file_len = os_file_prev_len; os_file_pos = 0; }
  return os_fake_file;
}
size_t vf_fwrite(const void *ptr, size_t size, size_t n, FILE *f) {
  (void)f;
  size_t want = size * n, got = want;
  if (os_fails(OS_FWRITE)) { got = os_short_write < want ? os_short_write : (want ? want - 1 : 0); os_stream_err = 1; }
  const unsigned char *s = ptr;
  for (unsigned i = 0; i < 64; i++)
    if (i < got) os_written[os_file_pos + i < 64 ? os_file_pos + i : 63] = s[i];
  os_written_n += (unsigned)got;
  os_file_pos += (unsigned)got;
  if (os_file_pos > os_file_len) os_file_len = os_file_pos;
  return size ? got / size : 0;
}
int vf_fclose(FILE *f) {
  os_fopen_live = 0;
  free(f);
  if (os_fails(OS_FCLOSE)) return EOF;
  os_fclose_ok = 1;
  return 0;
}
#endif
/* the stream's error indicator: set by a failed write (both builds) */
int vf_ferror(FILE *f) { (void)f; return os_stream_err; }
int vf_fflush(FILE *f) { (void)f; return os_stream_err ? EOF : 0; }
#ifndef VF_CBMC
/* ------------------------------------------------- replay: real calls + injected faults */
void *vf_malloc(size_t n) { if (os_fails(OS_MALLOC)) return NULL; return (malloc)(n); }
void vf_free(void *p) { (free)(p); }
static unsigned char *os_native_code;
unsigned char *os_code_base(void) { return os_native_code; }
void *vf_mmap(void *addr, size_t len, int prot, int flags, int fd, off_t off) {
  if (os_fails(OS_MMAP)) { errno = ENOMEM; return MAP_FAILED; }
  if ((flags & MAP_ANONYMOUS) && (prot & PROT_EXEC)) os_last_prot = prot;
  void *p = (mmap)(addr, len, prot, flags, fd, off);
  if ((flags & MAP_ANONYMOUS) && (prot & PROT_EXEC) && p != MAP_FAILED) { os_native_code = p; os_anon_len = (unsigned)len; }
  if (!(flags & MAP_ANONYMOUS) && p != MAP_FAILED) { os_map_base = p; os_map_end = (unsigned)len; }
  return p;
}
void *vf_mremap(void *old, size_t oldlen, size_t newlen, int flags, ...) {
  if (os_fails(OS_MREMAP)) { errno = ENOMEM; return MAP_FAILED; }
  if (!os_mremap_moves) {
    void *r = (mremap)(old, oldlen, newlen, flags);
    if (r != MAP_FAILED) { os_native_code = r; os_anon_len = (unsigned)newlen; }
    return r;
  }
  void *np = (mmap)(NULL, newlen, PROT_READ | PROT_WRITE | PROT_EXEC, MAP_ANONYMOUS | MAP_PRIVATE, -1, 0);
  if (np == MAP_FAILED) return np;
  memcpy(np, old, oldlen);
  (munmap)(old, oldlen);
  os_native_code = np; os_anon_len = (unsigned)newlen;
  return np;
}
int vf_munmap(void *p, size_t len) {
  if (os_fails(OS_MUNMAP)) { errno = EINVAL; return -1; }
  if (p == (void *)os_map_base) os_unmapped_ok = 1;
  return (munmap)(p, len);
}
void *vf_memcpy(void *dst, const void *src, size_t n) { return (memcpy)(dst, src, n); }
int vf_open(const char *path, int flags, ...) {
  if (os_fails(OS_OPEN)) { errno = EACCES; return -1; }
  return (open)(path, flags);
}
int vf_fstat(int fd, struct stat *st) { if (os_fails(OS_FSTAT)) { errno = EIO; return -1; } return (fstat)(fd, st); }
int vf_close(int fd) { int r = (close)(fd); if (os_fails(OS_CLOSE)) return -1; return r; }
FILE *vf_fopen(const char *path, const char *mode) {
  if (os_fails(OS_FOPEN)) { errno = EACCES; return NULL; }
  os_fopen_live = 1; os_written_n = 0; os_stream_err = 0;
  return (fopen)(path, mode);
}
size_t vf_fwrite(const void *ptr, size_t size, size_t n, FILE *f) {
  size_t want = size * n, got = want;
  if (os_fails(OS_FWRITE)) { got = os_short_write < want ? os_short_write : (want ? want - 1 : 0); os_stream_err = 1; }
  size_t r = (fwrite)(ptr, 1, got, f);
  for (unsigned i = 0; i < r && os_written_n + i < 64; i++) os_written[os_written_n + i] = ((const unsigned char *)ptr)[i];
  os_written_n += (unsigned)r;
  return size ? r / size : 0;
}
int vf_fclose(FILE *f) {
  os_fopen_live = 0;
  int r = (fclose)(f);
  if (os_fails(OS_FCLOSE)) return EOF;
  if (r == 0) os_fclose_ok = 1;
  return r;
}
#endif
