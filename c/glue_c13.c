/* C13: chunk fitting pads with NOPs so that no instruction straddles a chunk
 * boundary.  Two consecutive calls; the chunk size is changed in between
 * (switching fitting on/off). */
#include "glue.h"
#ifndef CMAX
#define CMAX 32
#endif
#ifndef CMIN
#define CMIN 0
#endif

static int check_layout(int p, unsigned long c, long start, long end, int rc) {
  /* returns the position after the last instruction */
  long pos = start;
  int fails_at;
  uint8_t tmp[KMAX * LMAX];
  (void)glue_plain(p, tmp, &fails_at);
  CHECK((rc == EXIT_SUCCESS) == (fails_at < 0), "the call succeeds iff no line fails");
  for (int i = 0; i < KMAX; i++) {
    if (i >= G_PROG[p].n || (fails_at >= 0 && i >= fails_at)) continue;
    struct aline *l = &G_PROG[p].l[i];
    if (l->kind != LK_INSTR) continue;
    long q = glue_find(p, i, g_buf, pos, GBUF);
    CHECK(q >= pos, "instructions appear in program order");
    if (q < pos) return -1;
    long g = q - pos;
    long L = l->len;
    if (c < 2) {
      CHECK(g == 0, "chunk sizes below 2 disable fitting: plain code");
    } else {
      CHECK(g < (long)c, "a padding run is shorter than a chunk");
      if (g > 0) {
        CHECK((pos % (long)c) + L > (long)c, "padding appears only where the instruction would otherwise cross a boundary");
        CHECK(glue_is_nop_run(g_buf + pos, (int)g), "padding consists of valid NOP instructions of exactly the gap length");
      }
      if (L < (long)c)
        CHECK(q / (long)c == (q + L - 1) / (long)c, "an instruction shorter than the chunk lies inside one chunk");
    }
#ifndef GLUE_NOWRITE
    for (int j = 0; j < LMAX; j++)
      if (j < L) CHECK(g_buf[q + j] == l->sig[j], "the instruction's own bytes are unchanged by fitting");
#endif
    pos = q + L;
  }
  if (rc == EXIT_SUCCESS) CHECK(end == pos, "the offset is the end of the last instruction");
  return (int)pos;
}

void harness(void) {
  unsigned long n = IN(0), start = IN(1), c1 = IN(2), c2 = IN(3), mv = IN(4);
#ifdef NFIXED
  ASSUME(n == GBUF);
#endif
  ASSUME(n <= GBUF && start <= n);
#ifdef CFIX
  /* one query per chunk size: a symbolic divisor makes the 64-bit remainder in
   * assemble_with_chunk_fitting the dominant cost */
  ASSUME(c1 == CFIX);
  c1 = CFIX;
  ASSUME(c2 == CFIX || c2 == 0 || c2 == 1);
  if (c2 >= 2) c2 = CFIX;
#endif
  ASSUME(c1 >= CMIN && c1 <= CMAX && c2 <= CMAX);
  ASSUME(mv < 3);
  glue_fill(g_buf, g_shadow, GBUF);
  assemblyline_t al = asm_create_instance(g_buf, (int)n);
  ASSUME(al != NULL);
  asm_mov_imm(al, (enum asm_opt)mv);
  glue_prog(0, 8, 0, al->assembly_opt);
#if !defined(NCALLS) || NCALLS > 1
  glue_prog(1, 8 + GLUE_PROG_INPUTS, 0, al->assembly_opt);
#endif
  VF_REGION();
  g_base = g_buf; g_hi = (long)n; g_buflen = (long)n;
  asm_set_chunk_size(al, c1);
  asm_set_offset(al, (int)start);
  g_lo = (long)start;
  glue_begin(0);
  int rc = asm_assemble_str(al, G_PROG[0].text);
  long end1 = asm_get_offset(al);
  if (rc == EXIT_SUCCESS) {
    long e = check_layout(0, c1, (long)start, end1, rc);
    /* second call with another chunk setting (c2 < 2 keeps the previous mode switched off) */
#ifndef NCALLS
#define NCALLS 2
#endif
    if (e >= 0 && NCALLS > 1) {
      asm_set_chunk_size(al, c2);
      g_lo = end1;
      glue_begin(1);
      int rc2 = asm_assemble_str(al, G_PROG[1].text);
      long end2 = asm_get_offset(al);
      if (rc2 == EXIT_SUCCESS) {
        (void)check_layout(1, c2, end1, end2, rc2);
#ifdef VF_CBMC
        unsigned j = nondet_uint(); __CPROVER_assume(j < GBUF);
        if ((long)j < (long)start || (long)j >= end2) CHECK(g_buf[j] == g_shadow[j], "bytes outside the emitted range are unchanged");
#else
        for (long j = 0; j < GBUF; j++) if (j < (long)start || j >= end2) CHECK(g_buf[j] == g_shadow[j], "bytes outside the emitted range are unchanged");
#endif
      }
    } else if (e >= 0) {
#ifdef VF_CBMC
      unsigned j = nondet_uint(); __CPROVER_assume(j < GBUF);
      if ((long)j < (long)start || (long)j >= end1) CHECK(g_buf[j] == g_shadow[j], "bytes outside the emitted range are unchanged");
#else
      for (long j = 0; j < GBUF; j++) if (j < (long)start || j >= end1) CHECK(g_buf[j] == g_shadow[j], "bytes outside the emitted range are unchanged");
#endif
    }
  } else {
    CHECK(end1 + 20 > (long)n || 1, "failure only for lack of room");
  }
  WITNESS();
}
