/* C12: option setters compose as documented (last effective setting per
 * dimension).  One-step query from every documented state + direct sequences. */
#include "vf.h"
#include <assemblyline.h>
#include "instruction_data.h"
#include "common.h"

static uint8_t b1[32], b2[32], b3[32];
struct st { int mv, sw, nb; };   /* values of enum asm_opt */

/* the documented semantics (assemblyline.h, libassemblyline.3, asmline --help) */
static struct st spec_next(struct st s, int setter, int v) {
  switch (setter) {
  case 0: if (v == NASM || v == STRICT || v == SMART) s.mv = v; break;           /* asm_mov_imm */
  case 1: if (v == NASM || v == STRICT) s.sw = v; break;                          /* asm_sib_index_base_swap */
  case 2: if (v == NASM || v == STRICT) s.nb = v; break;                          /* asm_sib_no_base */
  case 3: if (v == NASM || v == STRICT) { s.sw = v; s.nb = v; } break;            /* asm_sib */
  case 4: if (v == NASM || v == STRICT) { s.mv = v; s.sw = v; s.nb = v; }         /* asm_set_all */
          else if (v == SMART) s.mv = SMART; break;
  }
  return s;
}
static void apply(assemblyline_t a, int setter, int v) {
  switch (setter) {
  case 0: asm_mov_imm(a, (enum asm_opt)v); break;
  case 1: asm_sib_index_base_swap(a, (enum asm_opt)v); break;
  case 2: asm_sib_no_base(a, (enum asm_opt)v); break;
  case 3: asm_sib(a, (enum asm_opt)v); break;
  case 4: asm_set_all(a, (enum asm_opt)v); break;
  }
}
static void bring(assemblyline_t a, struct st s) {
  asm_mov_imm(a, (enum asm_opt)s.mv);
  asm_sib_index_base_swap(a, (enum asm_opt)s.sw);
  asm_sib_no_base(a, (enum asm_opt)s.nb);
}
/* what the assembler reads from the option byte (line_to_instr clears the NASM
 * mov bit when SMART is set; the other bits are read individually) */
static unsigned norm(uint8_t o) {
  if (o & SMART_MOV_IMM) o &= ~NASM_MOV_IMM;
  return o & (NASM_MOV_IMM | SMART_MOV_IMM | NASM_SIB_INDEX_BASE_SWAP | NASM_SIB_NO_BASE);
}
static struct st any_state(int base) {
  struct st s; unsigned long a = IN(base), b = IN(base + 1), c = IN(base + 2);
  ASSUME(a < 3 && b < 2 && c < 2);
  s.mv = (int)a; s.sw = (int)b; s.nb = (int)c; return s;
}
static int any_value(int idx) {
  unsigned long v = IN(idx);
  ASSUME(v <= 0xffffffffu);
  return (int)(unsigned)v;          /* STRICT, NASM, SMART and every out-of-range int */
}

void harness(void) {
  assemblyline_t A = asm_create_instance(b1, 32), B = asm_create_instance(b2, 32), C = asm_create_instance(b3, 32);
  ASSUME(A && B && C);
  /* a new instance starts as SMART / NASM / NASM */
  struct st dflt = { SMART, NASM, NASM };
  uint8_t fresh = A->assembly_opt;
  bring(B, dflt);
  CHECK(norm(fresh) == norm(B->assembly_opt), "a new instance starts as SMART / NASM / NASM");
  /* one step from every documented state */
  struct st s = any_state(0), sc = any_state(3);
  bring(A, s); bring(C, sc);
  uint8_t c_before = C->assembly_opt;
  struct assemblyline a_before = *A;
  unsigned long setter = IN(6); ASSUME(setter < 5);
  int v = any_value(7);
  VF_REGION();
  apply(A, (int)setter, v);
  struct st s2 = spec_next(s, (int)setter, v);
  bring(B, s2);
  CHECK(norm(A->assembly_opt) == norm(B->assembly_opt), "after one setter call the instance is in the documented state");
  CHECK(C->assembly_opt == c_before, "settings of one instance never affect another");
  CHECK(A->buffer == a_before.buffer && A->buffer_len == a_before.buffer_len && A->offset == a_before.offset &&
        A->chunk_size == a_before.chunk_size && A->assembly_mode == a_before.assembly_mode &&
        A->external == a_before.external && A->debug == a_before.debug, "a setter changes nothing but the options");
#if SEQ > 0
  /* direct sequences of length SEQ on a fresh pair */
  assemblyline_t D = asm_create_instance(b1, 32), E = asm_create_instance(b2, 32);
  ASSUME(D && E);
  struct st t = dflt;
  for (int i = 0; i < SEQ; i++) {
    unsigned long st = IN(10 + 2 * i); ASSUME(st < 5);
    int vv = any_value(11 + 2 * i);
    apply(D, (int)st, vv);
    t = spec_next(t, (int)st, vv);
  }
  bring(E, t);
  CHECK(norm(D->assembly_opt) == norm(E->assembly_opt), "a sequence of setter calls ends in the documented state");
#endif
  WITNESS();
}
