/* entry point for both builds */
#include "vf.h"
unsigned long VF_IN[VF_NIN];
#ifdef VF_CBMC
int main(void) { harness(); return 0; }
#else
int vf_failed;
int main(int argc, char **argv) {
  for (int i = 1; i < argc; i++) {
    char *eq = strchr(argv[i], '=');
    if (!eq) continue;
    int k = atoi(argv[i]);
    if (k >= 0 && k < VF_NIN) VF_IN[k] = strtoul(eq + 1, NULL, 0);
  }
  harness();
  if (vf_failed) { printf("REPLAY-RESULT violated\n"); return 1; }
  printf("REPLAY-RESULT held\n");
  return 0;
}
#endif
