/* included (by a generated wrapper) before tools/asmline.c: system headers
 * first, then the environment functions are redirected to the C20 harness */
#ifndef VF_CLI_H
#define VF_CLI_H
#include <assemblyline.h>
#include <getopt.h>
#include <stdbool.h>
#include <stdio.h>
#include <stdlib.h>
#include <string.h>
#include <time.h>
#include <unistd.h>
int vf_getopt_long(int argc, char *const argv[], const char *os, const struct option *lo, int *li);
int vf_isatty(int fd);
ssize_t vf_getline(char **lineptr, size_t *n, FILE *stream);
int vf_printf(const char *fmt, ...);
int vf_fprintf(FILE *f, const char *fmt, ...);
void vf_exit(int s);
void vf_free(void *p);
int vf_snprintf(char *dst, size_t n, const char *fmt, ...);
void *vf_calloc(size_t a, size_t b);
int vf_atoi(const char *s);
char *vf_strchr(const char *s, int c);
size_t vf_strlen(const char *s);
#define getopt_long vf_getopt_long
#define isatty vf_isatty
#define getline vf_getline
#define printf vf_printf
#define fprintf vf_fprintf
#define exit vf_exit
#define free vf_free
#define snprintf vf_snprintf
#define calloc vf_calloc
#define atoi vf_atoi
#define strchr vf_strchr
#define strlen vf_strlen
#define main real_main
#endif
