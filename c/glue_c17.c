/* C17: OS resource failures are reported, never crash or corrupt.
 * Every kind of OS call (malloc, mmap, mremap, munmap, open, fstat, close) may
 * fail at its 1st..4th occurrence, independently per kind, so one query covers
 * every single failure and every combination across kinds within a scenario.
 * (fopen/fwrite/fclose: glue_c19b.c with WITH_FAULTS.) */
#include "vf_os.h"
#include "glue.h"
#include "common.h"
static uint8_t ext[64];
assemblyline_t g_al;

#ifdef VF_CBMC
static int rec_called, rec_rc;
int rec_assemble_str(assemblyline_t al, const char *s) {
  (void)al;
  rec_called++;
  CHECK((const unsigned char *)s == os_map_base, "the text handed to the assembler is the file mapping");
  return rec_rc;
}
int rec_assemble_counting(assemblyline_t al, char *s, int chunk, int *dest) {
  (void)al; (void)chunk;
  rec_called++;
  CHECK((const unsigned char *)s == os_map_base, "the text handed to the assembler is the file mapping");
  if (dest) *dest = 0;
  return rec_rc;
}
#endif

void harness(void) {
  os_schedule(40);
  VF_REGION();
#if SCENARIO == 0
  /* managed instance: create, assemble with growth, assemble again, destroy */
  unsigned long mode = IN(0);
  ASSUME(mode < 3);
#ifdef MODEFIX
  ASSUME(mode == MODEFIX); mode = MODEFIX;       /* one query per assemble mode */
#endif
  assemblyline_t A = asm_create_instance(NULL, 0);
  if (A == NULL) {
    CHECK(os_failed_any, "creation fails only when the OS refused something");
  } else {
    g_al = A;
    if (mode == 1) asm_set_chunk_size(A, 5);
    for (int i = 0; i < 2; i++) glue_prog(i, 8 + i * GLUE_PROG_INPUTS, 0, A->assembly_opt);
    for (int i = 0; i < 2; i++) {
      unsigned long off = IN(2 + i);
      ASSUME(off <= (unsigned long)A->buffer_len);
      asm_set_offset(A, (int)off);
      int cnt = 0, fails_before = os_failed_any;
      unsigned mr_before = os_calls[OS_MREMAP];
      g_base = NULL;
      glue_begin(i);
      int rc = mode == 2 ? asm_assemble_string_counting_chunks(A, G_PROG[i].text, 5, &cnt) : asm_assemble_str(A, G_PROG[i].text);
      CHECK(rc == EXIT_SUCCESS || rc == EXIT_FAILURE, "documented return value");
      if (rc == EXIT_FAILURE) {
        CHECK(os_failed_any && !fails_before ? 1 : os_failed_any, "assembly on a managed buffer fails only when the OS refused to grow it");
        CHECK(asm_get_offset(A) == (int)off, "a failed call leaves the offset where it was: earlier code stays retrievable");
      }
      (void)mr_before;
      CHECK((unsigned char *)asm_get_code(A) == os_code_base(), "asm_get_code still returns the live mapping");
      CHECK((unsigned)A->buffer_len == os_anon_len, "the recorded buffer length is the size of the live mapping");
    }
    CHECK(asm_destroy_instance(A) == EXIT_SUCCESS, "the instance can still be destroyed");
  }
#elif SCENARIO == 1
  /* instance on a caller buffer */
  assemblyline_t A = asm_create_instance(ext, sizeof ext);
  if (A == NULL) CHECK(os_failed_any, "creation fails only when the OS refused something");
  else CHECK(asm_destroy_instance(A) == EXIT_SUCCESS, "the instance can be destroyed");
#elif SCENARIO == 2
  /* file assembly, plain and counting */
  unsigned long size = IN(0), which = IN(1), rcv = IN(2);
  ASSUME(size <= OS_MAXFILE && which < 2 && rcv < 2);
  os_file_size = (unsigned)size; os_file_exists = 1;
  for (unsigned i = 0; i < OS_MAXFILE; i++) os_file[i] = 'x';
  assemblyline_t A = asm_create_instance(ext, sizeof ext);
  if (A != NULL) {
#ifdef VF_CBMC
    rec_rc = (int)rcv;
    int cnt = 0;
    char path[] = "f.asm";
    int rc = which ? asm_assemble_file_counting_chunks(A, path, 4, &cnt) : asm_assemble_file(A, path);
    CHECK(rc == EXIT_SUCCESS || rc == EXIT_FAILURE, "documented return value");
    int early = (os_fail_at[OS_OPEN] == 1) || (os_fail_at[OS_FSTAT] == 1) || (os_fail_at[OS_MMAP] >= 1 && os_fail_at[OS_MMAP] <= os_calls[OS_MMAP]);
    if (early) {
      CHECK(rc == EXIT_FAILURE, "a refused open/fstat/mmap is reported as EXIT_FAILURE");
      CHECK(rec_called == 0, "nothing is assembled when the file could not be read");
    }
    if (rc == EXIT_SUCCESS) CHECK(rec_called == 1 && rec_rc == EXIT_SUCCESS, "success is reported only if the text was assembled successfully");
    CHECK(asm_destroy_instance(A) == EXIT_SUCCESS, "the instance can still be destroyed");
#else
    char path[64]; snprintf(path, sizeof path, "/tmp/vf-c17-%d.asm", (int)getpid());
    FILE *f = (fopen)(path, "wb"); for (unsigned i = 0; i < size; i++) fputc("nop\n"[i % 4], f); (fclose)(f);
    int cnt = 0;
    int rc = which ? asm_assemble_file_counting_chunks(A, path, 4, &cnt) : asm_assemble_file(A, path);
    printf("rc=%d failed_any=%d\n", rc, os_failed_any);
    unlink(path);
    CHECK(rc == EXIT_SUCCESS || rc == EXIT_FAILURE, "documented return value");
    asm_destroy_instance(A);
#endif
  }
#endif
  WITNESS();
}
