/* L-reg: the real str_to_reg on every string of at most 5 characters agrees
 * with an independent table of register names (C10: a misspelt register token
 * yields reg_error; C01..C05: a name yields the documented representation). */
#include "vf.h"
#include "enc.h"
#include "reg_parser.h"
#include "enums.h"

void harness(void) {
  char s[8];
  unsigned long len = IN(0);
  ASSUME(len >= 1 && len <= 5);
  for (int i = 0; i < 6; i++) {
    unsigned long b = IN(1 + i);
    ASSUME(b >= 0x21 && b <= 0x7e);
    s[i] = (char)b;
  }
  s[len] = 0;
  VF_REGION();
  unsigned got = str_to_reg(s);
  /* the independent table: every name of every class/number */
  int found = 0; unsigned want = 0;
  for (int rc = RC_GPR8; rc <= RC_YMM; rc++)
    for (int num = 0; num < 16; num++) {
      if (rc == RC_MM && num > 7) continue;
      if (rc == RC_GPR8H && (num < 4 || num > 7)) continue;
      struct areg r; r.rc = (uint8_t)rc; r.num = (uint8_t)num;
      if (!strcmp(s, vf_regname(r))) { found = 1; want = vf_regval(r); }
    }
  if (found) CHECK(got == want, "a register name converts to its documented representation");
  else CHECK((got & reg_error) == reg_error, "a token that is not a register name yields reg_error");
  WITNESS();
}
