/* differential test of the C library models against glibc (setup gate) */
#define _GNU_SOURCE 1
#include <stdio.h>
#include <stdlib.h>
#include <string.h>
char *vfm_strstr(const char *h, const char *n);
char *vfm_strtok_r(char *s, const char *delim, char **save);
unsigned long vf_model_strtoul(const char *p, char **end, int base);
static unsigned rnd_state = 12345;
static unsigned rnd(void) { rnd_state = rnd_state * 1103515245u + 12345u; return rnd_state >> 8; }
int main(int argc, char **argv) {
  int n = argc > 1 ? atoi(argv[1]) : 200000, bad = 0;
  if (argc > 2) rnd_state = (unsigned)atoi(argv[2]);
  static const char AL[] = "0123456789abcdefxX-+ ,[]*wordbytqlngshfarz";
  for (int it = 0; it < n; it++) {
    char a[24], b[8], c[24], d[24];
    int la = rnd() % 20, lb = rnd() % 5;
    for (int i = 0; i < la; i++) a[i] = AL[rnd() % (sizeof AL - 1)];
    a[la] = 0;
    for (int i = 0; i < lb; i++) b[i] = AL[rnd() % (sizeof AL - 1)];
    b[lb] = 0;
    if (strstr(a, b) != vfm_strstr(a, b)) { bad++; printf("strstr '%s' '%s'\n", a, b); }
    for (int base = 0; base <= 16; base += (base == 0 ? 10 : 6)) {
      char *e1, *e2;
      unsigned long r1 = strtoul(a, &e1, base), r2 = vf_model_strtoul(a, &e2, base);
      if (r1 != r2 || e1 != e2) { bad++; printf("strtoul '%s' base %d: %lu/%lu end %ld/%ld\n", a, base, r1, r2, (long)(e1 - a), (long)(e2 - a)); }
    }
    strcpy(c, a); strcpy(d, a);
    char *s1 = 0, *s2 = 0;
    const char *delim = (rnd() & 1) ? "," : " \t";
    char *t1 = strtok_r(c, delim, &s1), *t2 = vfm_strtok_r(d, delim, &s2);
    for (int k = 0; k < 6; k++) {
      if ((t1 == 0) != (t2 == 0) || (t1 && (t1 - c != t2 - d || strcmp(t1, t2)))) { bad++; printf("strtok_r '%s'\n", a); break; }
      if (!t1) break;
      const char *dl = k == 0 ? "" : delim;
      t1 = strtok_r(NULL, dl, &s1); t2 = vfm_strtok_r(NULL, dl, &s2);
    }
  }
  printf("libc models: %d iterations, %d disagreements\n", n, bad);
  return bad != 0;
}
