#!/bin/bash
# Runs the repository's own suite with the verification guard OFF (plain
# autotools build) and checks that every test of BASELINE.json's stable_pass
# list passes.  Prints PASS/FAIL lines like the suite; exit 0 iff all pass.
cd /repo || exit 2
make check -j1 > /tmp/vf-baseline.log 2>&1
python3 - <<'PY'
import json, re, sys
base = json.load(open('/root/.vp/BASELINE.json'))
log = open('/tmp/vf-baseline.log', errors='replace').read()
passed = set(re.findall(r'^PASS: (\S+)', log, re.M))
# TAP-driven suites whose sub-tests are all expected failures (XFAIL) count as
# passing under their file name without extension, as in BASELINE.json
xf = set(re.sub(r'\.(eaf|tap)$', '', t) for t in re.findall(r'^XFAIL: (\S+)', log, re.M))
bad = set(re.sub(r'\.(eaf|tap)$', '', t) for t in re.findall(r'^(?:FAIL|XPASS|ERROR): (\S+)', log, re.M))
passed |= (xf - bad)
missing = [t for t in base['stable_pass'] if t not in passed]
for t in sorted(passed):
    print('PASS:', t)
if missing:
    print('NOT-PASSING:', ' '.join(missing))
    sys.exit(1)
print('baseline: all %d stable tests pass' % len(base['stable_pass']))
PY
rc=$?
rm -f /tmp/vf-baseline.log
exit $rc
