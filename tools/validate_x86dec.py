#!/usr/bin/env python3
"""Validation of the oracle itself (never involves AssemblyLine):
random and boundary instances of every instruction class are assembled with
nasm; the reference decoder must read each one back as the instruction that
was written (operation, operand kinds, registers, effective address, access
width, immediate), consume exactly nasm's length, match exactly one table row,
and objdump must agree on the length.

usage: validate_x86dec.py [N per class] [seed]
"""
import os
import random
import re
import subprocess
import sys
import tempfile

V = os.path.dirname(os.path.dirname(os.path.abspath(__file__)))
sys.path.insert(0, V)
from vflib import forms as F  # noqa: E402

N8 = ["al", "cl", "dl", "bl", "spl", "bpl", "sil", "dil"] + ["r%db" % i for i in range(8, 16)]
N8H = {4: "ah", 5: "ch", 6: "dh", 7: "bh"}
N16 = ["ax", "cx", "dx", "bx", "sp", "bp", "si", "di"] + ["r%dw" % i for i in range(8, 16)]
N32 = ["eax", "ecx", "edx", "ebx", "esp", "ebp", "esi", "edi"] + ["r%dd" % i for i in range(8, 16)]
N64 = ["rax", "rcx", "rdx", "rbx", "rsp", "rbp", "rsi", "rdi"] + ["r%d" % i for i in range(8, 16)]
RC = {"g8": 1, "g8h": 2, "g16": 3, "g32": 4, "g64": 5, "mm": 6, "xmm": 7, "ymm": 8}


def xops():
    """parse enum xop from x86dec.h"""
    txt = open(os.path.join(V, "c", "x86dec.h")).read()
    body = txt[txt.index("enum xop {") + 10: txt.index("};", txt.index("enum xop {"))]
    body = re.sub(r"/\*.*?\*/", "", body, flags=re.S)
    val = -1
    out = {}
    for item in body.split(","):
        item = item.strip()
        if not item:
            continue
        if "=" in item:
            name, v = [x.strip() for x in item.split("=")]
            val = int(v, 0)
        else:
            name = item
            val += 1
        out[name] = val
    return out


XOP = xops()


def ev(expr):
    """evaluate '(XOP_CMOVCC + 5)' style expressions"""
    return eval(expr, {}, XOP)


class Reg:
    def __init__(self, cls, num):
        self.cls, self.num = cls, num

    def name(self):
        c, n = self.cls, self.num
        return {"g8": lambda: N8[n], "g8h": lambda: N8H[n], "g16": lambda: N16[n], "g32": lambda: N32[n],
                "g64": lambda: N64[n], "mm": lambda: "mm%d" % n, "xmm": lambda: "xmm%d" % n, "ymm": lambda: "ymm%d" % n}[c]()

    def size(self):
        return {"g8": 8, "g8h": 8, "g16": 16, "g32": 32, "g64": 64, "mm": 64, "xmm": 128, "ymm": 256}[self.cls]

    def expect(self):
        return "reg rc=%d num=%d" % (RC[self.cls], self.num)


def rreg(rnd, cls):
    if cls == "g8h":
        return Reg("g8h", rnd.choice([4, 5, 6, 7]))
    if cls == "mm":
        return Reg("mm", rnd.randrange(8))
    return Reg(cls, rnd.randrange(16))


def rgpr(rnd, size, allow_high=False):
    if size == 8 and allow_high and rnd.random() < 0.2:
        return rreg(rnd, "g8h")
    return rreg(rnd, {8: "g8", 16: "g16", 32: "g32", 64: "g64"}[size])


class Mem:
    def __init__(self, rnd, width_kw=None):
        self.asize = rnd.choice([64, 64, 32])
        regs = N64 if self.asize == 64 else N32
        self.base = rnd.randrange(16) if rnd.random() < 0.8 else None
        self.index = rnd.choice([i for i in range(16) if i != 4]) if rnd.random() < 0.6 else None
        self.scale = rnd.choice([1, 2, 4, 8]) if self.index is not None else 1
        r = rnd.random()
        if r < 0.25:
            self.disp = 0
        elif r < 0.6:
            self.disp = rnd.choice([1, -1, 127, -128, 128, -129, 0x10, -0x40])
        else:
            self.disp = rnd.randrange(-0x80000000, 0x7fffffff)
        if self.base is None and self.index is None:
            self.asize = 64
            self.disp = rnd.randrange(0, 0x7fffffff)
        self.kw = width_kw
        self.regs = regs

    def text(self):
        parts = []
        if self.base is not None:
            parts.append(self.regs[self.base])
        if self.index is not None:
            parts.append("%s*%d" % (self.regs[self.index], self.scale))
        s = "+".join(parts)
        if self.disp or not parts:
            s += ("%+d" % self.disp) if parts else "abs %d" % self.disp
        return "%s[%s]" % ((self.kw + " ") if self.kw else "", s)

    def coeffs(self):
        c = [0] * 16
        if self.base is not None:
            c[self.base] += 1
        if self.index is not None:
            c[self.index] += self.scale
        return c


def parse_opd(s):
    d = {}
    kind = s.split()[0]
    for kv in s.split()[1:]:
        k, v = kv.split("=")
        d[k] = int(v)
    return kind, d


def mem_matches(d, m, msize):
    c = [0] * 16
    if d["hb"]:
        c[d["b"]] += 1
    if d["hi"]:
        c[d["i"]] += d["s"]
    if d["rip"] or c != m.coeffs() or d["asize"] != m.asize:
        return False
    disp_ok = (d["disp"] == m.disp) if m.asize == 64 else ((d["disp"] & 0xffffffff) == (m.disp & 0xffffffff))
    return disp_ok and (msize is None or d["msize"] == msize)


def gen(rnd, n):
    """yield (nasm text, expected dict)"""
    KW = {8: "byte", 16: "word", 32: "dword", 64: "qword"}

    def enc_ok(regs, mem=None, rexw=False):
        high = any(r.cls == "g8h" for r in regs)
        need = rexw or any(r.num > 7 or (r.cls == "g8" and r.num >= 4) for r in regs if r.cls != "mm")
        if mem is not None:
            need = need or (mem.base or 0) > 7 or (mem.index or 0) > 7
        return not (high and need)

    def E(op, opds, osize=None, vex=0, far=None):
        return {"op": ev(op), "opds": opds, "osize": osize, "vex": vex, "far": far}

    for _ in range(n):
        # integer two-operand
        for mn, xop in list(F.ALU.items()) + [("mov", "XOP_MOV"), ("test", "XOP_TEST"), ("xchg", "XOP_XCHG")]:
            sz = rnd.choice([8, 16, 32, 64])
            a, b = rgpr(rnd, sz, True), rgpr(rnd, sz, True)
            if enc_ok([a, b], rexw=sz == 64):
                if mn == "xchg" and (a.num == 0 or b.num == 0) and sz > 8:
                    pass  # 90+r short form: operand order/ nop special cases are checked by hand below
                else:
                    yield "%s %s, %s" % (mn, a.name(), b.name()), E(xop, [("reg", a), ("reg", b)], sz) if mn != "xchg" else E(xop, [("regset", (a, b))], sz)
            m = Mem(rnd)
            r = rgpr(rnd, sz, True)
            if enc_ok([r], m, sz == 64):
                yield "%s %s, %s" % (mn, m.text(), r.name()), (E(xop, [("mem", m, sz), ("reg", r)], sz) if mn != "xchg" else E(xop, [("memreg", m, sz, r)], sz))
                if mn not in ("test",):
                    yield "%s %s, %s" % (mn, r.name(), m.text()), (E(xop, [("reg", r), ("mem", m, sz)], sz) if mn != "xchg" else E(xop, [("memreg", m, sz, r)], sz))
            # immediates
            if mn not in ("xchg", "mov"):
                sz = rnd.choice([8, 16, 32, 64])
                r = rgpr(rnd, sz)
                lim = min(sz, 32)
                v = rnd.choice([0, 1, -1, 127, -128, 128, 255, -129, rnd.randrange(-(1 << (lim - 1)), (1 << (lim - 1)))])
                if -(1 << (lim - 1)) <= v < (1 << (lim - 1)):
                    yield "%s %s, %d" % (mn, r.name(), v), E(xop, [("reg", r), ("imm", v, sz)], sz)
                    m = Mem(rnd, KW[sz])
                    yield "%s %s, %d" % (mn, m.text(), v), E(xop, [("mem", m, sz), ("imm", v, sz)], sz)
        v = rnd.randrange(0, 1 << 64)
        r = rgpr(rnd, 64)
        yield "mov %s, 0x%x" % (r.name(), v), E("XOP_MOV", [("regnum", r.num), ("movimm", v)])
        for sfx in rnd.sample(F.CMOV_SUFFIXES, 4):
            sz = rnd.choice([16, 32, 64])
            a, b, m = rgpr(rnd, sz), rgpr(rnd, sz), Mem(rnd)
            yield "cmov%s %s, %s" % (sfx, a.name(), b.name()), E("(XOP_CMOVCC + %d)" % F.CC[sfx], [("reg", a), ("reg", b)], sz)
            yield "cmov%s %s, %s" % (sfx, a.name(), m.text()), E("(XOP_CMOVCC + %d)" % F.CC[sfx], [("reg", a), ("mem", m, sz)], sz)
            r8 = rgpr(rnd, 8, True)
            if enc_ok([r8]):
                yield "set%s %s" % (sfx, r8.name()), E("(XOP_SETCC + %d)" % F.CC[sfx], [("reg", r8)])
            yield "set%s %s" % (sfx, Mem(rnd).text()), E("(XOP_SETCC + %d)" % F.CC[sfx], [("anymem", 8)])
        for sfx in rnd.sample(F.JCC_SUFFIXES + ["be"], 4):
            d = rnd.choice([0, 5, -128, 127, -2])
            yield "j%s short $+2%+d" % (sfx, d), E("(XOP_JCC + %d)" % F.CC[sfx], [("rel", d, 8)])
            d = rnd.randrange(-(1 << 31), (1 << 31) - 1)
            yield "j%s near $+6%+d" % (sfx, d), E("(XOP_JCC + %d)" % F.CC[sfx], [("rel", d, 32)])
        d = rnd.randrange(-(1 << 31), (1 << 31) - 1)
        yield "jmp near $+5%+d" % d, E("XOP_JMP", [("rel", d, 32)])
        yield "call $+5%+d" % d, E("XOP_CALL", [("rel", d, 32)])
        d8 = rnd.randrange(-128, 127)
        yield "jmp short $+2%+d" % d8, E("XOP_JMP", [("rel", d8, 8)])
        yield "jrcxz $+2%+d" % d8, E("XOP_JRCXZ", [("rel", d8, 8)])
        yield "xbegin $+6%+d" % d, E("XOP_XBEGIN", [("rel", d, 32)])
        r = rgpr(rnd, 64); m = Mem(rnd)
        yield "jmp %s" % r.name(), E("XOP_JMP", [("reg", r)], far=0)
        yield "call %s" % r.name(), E("XOP_CALL", [("reg", r)], far=0)
        yield "jmp %s" % Mem(rnd, "qword").text(), E("XOP_JMP", [("anymem", 64)], far=0)
        yield "call %s" % Mem(rnd, "qword").text(), E("XOP_CALL", [("anymem", 64)], far=0)
        yield "jmp far %s" % m.text(), E("XOP_JMP", [("mem", m, 80)], far=1)
        yield "jmp far qword %s" % m.text(), E("XOP_JMP", [("mem", m, 80)], far=1)
        yield "call far dword %s" % m.text(), E("XOP_CALL", [("mem", m, 48)], far=1)
        yield "jmp far word %s" % m.text(), E("XOP_JMP", [("mem", m, 32)], far=1)
        # unary, push/pop, lea, movzx, imul
        for mn, xop in F.UNARY.items():
            sz = rnd.choice([8, 16, 32, 64]); r = rgpr(rnd, sz, True)
            if enc_ok([r], rexw=sz == 64):
                yield "%s %s" % (mn, r.name()), E(xop, [("reg", r)], sz)
            m = Mem(rnd, KW[sz])
            yield "%s %s" % (mn, m.text()), E(xop, [("mem", m, sz)], sz)
        sz = rnd.choice([16, 64]); r = rgpr(rnd, sz)
        yield "push %s" % r.name(), E("XOP_PUSH", [("reg", r)], sz)
        yield "pop %s" % r.name(), E("XOP_POP", [("reg", r)], sz)
        m = Mem(rnd, "qword")
        yield "push %s" % m.text(), E("XOP_PUSH", [("mem", m, 64)], 64)
        v = rnd.choice([0, 127, -128, 128, -129, rnd.randrange(-(1 << 31), (1 << 31) - 1)])
        yield "push %d" % v, E("XOP_PUSH", [("imm", v, 64)], 64)
        sz = rnd.choice([16, 32, 64]); r = rgpr(rnd, sz); m = Mem(rnd)
        yield "lea %s, %s" % (r.name(), m.text()), E("XOP_LEA", [("reg", r), ("mem", m, 0)], sz)
        src = rnd.choice([8, 16]); dsz = rnd.choice([s for s in (16, 32, 64) if s > src])
        a, b = rgpr(rnd, dsz), rgpr(rnd, src, True)
        if enc_ok([a, b], rexw=dsz == 64):
            yield "movzx %s, %s" % (a.name(), b.name()), E("XOP_MOVZX", [("reg", a), ("reg", b)], dsz)
        m = Mem(rnd, KW[src])
        yield "movzx %s, %s" % (a.name(), m.text()), E("XOP_MOVZX", [("reg", a), ("mem", m, src)], dsz)
        sz = rnd.choice([16, 32, 64]); a, b, m = rgpr(rnd, sz), rgpr(rnd, sz), Mem(rnd)
        yield "imul %s, %s" % (a.name(), b.name()), E("XOP_IMUL", [("reg", a), ("reg", b)], sz)
        yield "imul %s, %s" % (a.name(), m.text()), E("XOP_IMUL", [("reg", a), ("mem", m, sz)], sz)
        v = rnd.choice([3, -3, 127, 128, -129, 0x1234])
        yield "imul %s, %s, %d" % (a.name(), b.name(), v), E("XOP_IMUL", [("reg", a), ("reg", b), ("imm", v, sz)], sz)
        yield "imul %s, %s, %d" % (a.name(), m.text(), v), E("XOP_IMUL", [("reg", a), ("mem", m, sz), ("imm", v, sz)], sz)
        sz = rnd.choice([8, 16, 32, 64]); r = rgpr(rnd, sz)
        yield "imul %s" % r.name(), E("XOP_IMUL", [("reg", r)], sz)
        # shifts
        for mn, xop in list(F.SHIFT_IMM.items()) + [("ror", "XOP_ROR")]:
            sz = rnd.choice([8, 16, 32, 64]); r = rgpr(rnd, sz); c = rnd.choice([1, 2, 7, 31, 63, 200])
            yield "%s %s, %d" % (mn, r.name(), c), E(xop, [("reg", r), ("imm8", c)], sz)
            m = Mem(rnd, KW[sz])
            yield "%s %s, %d" % (mn, m.text(), c), E(xop, [("mem", m, sz), ("imm8", c)], sz)
            if mn in F.SHIFT_CL:
                yield "%s %s, cl" % (mn, r.name()), E(xop, [("reg", r), ("reg", Reg("g8", 1))], sz)
                yield "%s %s, cl" % (mn, m.text()), E(xop, [("mem", m, sz), ("reg", Reg("g8", 1))], sz)
        sz = rnd.choice([16, 32, 64]); a, b, m = rgpr(rnd, sz), rgpr(rnd, sz), Mem(rnd); c = rnd.randrange(256)
        for mn, xop in (("shld", "XOP_SHLD"), ("shrd", "XOP_SHRD")):
            yield "%s %s, %s, %d" % (mn, a.name(), b.name(), c), E(xop, [("reg", a), ("reg", b), ("imm8", c)], sz)
            yield "%s %s, %s, cl" % (mn, m.text(), b.name()), E(xop, [("mem", m, sz), ("reg", b), ("reg", Reg("g8", 1))], sz)
        for mn, xop in F.NOOPERAND.items():
            yield mn, E(xop, [])
        yield "nop", E("XOP_NOP", [])
        yield "xabort %d" % c, E("XOP_XABORT", [("imm8", c)])
        m = Mem(rnd)
        yield "clflush %s" % m.text(), E("XOP_CLFLUSH", [("mem", m, 0)])
        for mn, xop in F.PREFETCH.items():
            yield "%s %s" % (mn, m.text()), E(xop, [("mem", m, 0)])
        # BMI / ADX
        sz = rnd.choice([32, 64]); a, b, c3, m = rgpr(rnd, sz), rgpr(rnd, sz), rgpr(rnd, sz), Mem(rnd)
        for mn, xop in F.BMI_RMV.items():
            yield "%s %s, %s, %s" % (mn, a.name(), b.name(), c3.name()), E(xop, [("reg", a), ("reg", b), ("reg", c3)], vex=1)
            yield "%s %s, %s, %s" % (mn, a.name(), m.text(), c3.name()), E(xop, [("reg", a), ("mem", m, sz), ("reg", c3)], vex=1)
        yield "mulx %s, %s, %s" % (a.name(), b.name(), c3.name()), E("XOP_MULX", [("reg", a), ("reg", b), ("reg", c3)], vex=1)
        yield "mulx %s, %s, %s" % (a.name(), b.name(), m.text()), E("XOP_MULX", [("reg", a), ("reg", b), ("mem", m, sz)], vex=1)
        yield "rorx %s, %s, %d" % (a.name(), b.name(), c), E("XOP_RORX", [("reg", a), ("reg", b), ("imm8", c)], vex=1)
        yield "rorx %s, %s, %d" % (a.name(), m.text(), c), E("XOP_RORX", [("reg", a), ("mem", m, sz), ("imm8", c)], vex=1)
        for mn, xop in (("adcx", "XOP_ADCX"), ("adox", "XOP_ADOX")):
            yield "%s %s, %s" % (mn, a.name(), b.name()), E(xop, [("reg", a), ("reg", b)])
            yield "%s %s, %s" % (mn, a.name(), m.text()), E(xop, [("reg", a), ("mem", m, sz)])
        # MMX / SSE
        for mn, xop in rnd.sample(list(F.PACKED_MM_XMM.items()), 5):
            x1, x2, m1, m2, m = rreg(rnd, "xmm"), rreg(rnd, "xmm"), rreg(rnd, "mm"), rreg(rnd, "mm"), Mem(rnd)
            yield "%s %s, %s" % (mn, x1.name(), x2.name()), E(xop, [("reg", x1), ("reg", x2)])
            yield "%s %s, %s" % (mn, x1.name(), m.text()), E(xop, [("reg", x1), ("mem", m, 128)])
            yield "%s %s, %s" % (mn, m1.name(), m2.name()), E(xop, [("reg", m1), ("reg", m2)])
            yield "%s %s, %s" % (mn, m1.name(), m.text()), E(xop, [("reg", m1), ("mem", m, 64)])
        for mn, xop in list(F.SSE_XMM.items()) + list(F.SSE_XMM_REGONLY.items()):
            x1, x2 = rreg(rnd, "xmm"), rreg(rnd, "xmm")
            yield "%s %s, %s" % (mn, x1.name(), x2.name()), E(xop, [("reg", x1), ("reg", x2)])
        x1, x2, m = rreg(rnd, "xmm"), rreg(rnd, "xmm"), Mem(rnd)
        g32, g64 = rgpr(rnd, 32), rgpr(rnd, 64)
        yield "pmulld %s, %s" % (x1.name(), m.text()), E("XOP_PMULLD", [("reg", x1), ("mem", m, 128)])
        yield "psrldq %s, %d" % (x1.name(), c), E("XOP_PSRLDQ", [("reg", x1), ("imm8", c)])
        yield "movd %s, %s" % (x1.name(), g32.name()), E("XOP_MOVD", [("reg", x1), ("reg", g32)])
        yield "movd %s, %s" % (g32.name(), x1.name()), E("XOP_MOVD", [("reg", g32), ("reg", x1)])
        yield "movd %s, %s" % (x1.name(), m.text()), E("XOP_MOVD", [("reg", x1), ("mem", m, 32)])
        yield "movd %s, %s" % (m.text(), x1.name()), E("XOP_MOVD", [("mem", m, 32), ("reg", x1)])
        yield "movq %s, %s" % (x1.name(), g64.name()), E("XOP_MOVQ", [("reg", x1), ("reg", g64)])
        yield "movq %s, %s" % (g64.name(), x1.name()), E("XOP_MOVQ", [("reg", g64), ("reg", x1)])
        yield "movq %s, %s" % (x1.name(), x2.name()), E("XOP_MOVQ", [("reg", x1), ("reg", x2)])
        yield "movq %s, %s" % (x1.name(), m.text()), E("XOP_MOVQ", [("reg", x1), ("mem", m, 64)])
        yield "movq %s, %s" % (m.text(), x1.name()), E("XOP_MOVQ", [("mem", m, 64), ("reg", x1)])
        yield "movntdqa %s, %s" % (x1.name(), m.text()), E("XOP_MOVNTDQA", [("reg", x1), ("mem", m, 128)])
        mmr = rreg(rnd, "mm")
        yield "movntq %s, %s" % (m.text(), mmr.name()), E("XOP_MOVNTQ", [("mem", m, 64), ("reg", mmr)])
        # AVX
        for mn, xop in rnd.sample(list(F.AVX_BOTH.items()), 5) + list(F.AVX_YMM_ONLY.items()):
            y = [rreg(rnd, "ymm") for _ in range(3)]; x = [rreg(rnd, "xmm") for _ in range(3)]; m = Mem(rnd)
            yield "%s %s, %s, %s" % (mn, y[0].name(), y[1].name(), y[2].name()), E(xop, [("reg", r) for r in y], vex=1)
            yield "%s %s, %s, %s" % (mn, y[0].name(), y[1].name(), m.text()), E(xop, [("reg", y[0]), ("reg", y[1]), ("mem", m, 256)], vex=1)
            if mn in F.AVX_BOTH:
                yield "%s %s, %s, %s" % (mn, x[0].name(), x[1].name(), x[2].name()), E(xop, [("reg", r) for r in x], vex=1)
                yield "%s %s, %s, %s" % (mn, x[0].name(), x[1].name(), m.text()), E(xop, [("reg", x[0]), ("reg", x[1]), ("mem", m, 128)], vex=1)
        for mn, xop in F.AVX_MOV.items():
            y1, y2, x1, x2, m = rreg(rnd, "ymm"), rreg(rnd, "ymm"), rreg(rnd, "xmm"), rreg(rnd, "xmm"), Mem(rnd)
            yield "%s %s, %s" % (mn, y1.name(), y2.name()), E(xop, [("regset", (y1, y2))], vex=1)
            yield "%s %s, %s" % (mn, x1.name(), x2.name()), E(xop, [("regset", (x1, x2))], vex=1)
            yield "%s %s, %s" % (mn, y1.name(), m.text()), E(xop, [("reg", y1), ("mem", m, 256)], vex=1)
            yield "%s %s, %s" % (mn, m.text(), y1.name()), E(xop, [("mem", m, 256), ("reg", y1)], vex=1)
            yield "%s %s, %s" % (mn, m.text(), x1.name()), E(xop, [("mem", m, 128), ("reg", x1)], vex=1)
        for mn, xop in F.AVX_PERM2.items():
            y = [rreg(rnd, "ymm") for _ in range(3)]; m = Mem(rnd)
            yield "%s %s, %s, %s, %d" % (mn, y[0].name(), y[1].name(), y[2].name(), c), E(xop, [("reg", r) for r in y] + [("imm8", c)], vex=1)
            yield "%s %s, %s, %s, %d" % (mn, y[0].name(), y[1].name(), m.text(), c), E(xop, [("reg", y[0]), ("reg", y[1]), ("mem", m, 256), ("imm8", c)], vex=1)


def check(text, exp, dec):
    """dec: the CLI's line"""
    head, *ops = [s.strip() for s in dec.split("|")]
    h = dict(kv.split("=") for kv in head.split())
    errs = []
    if int(h["op"]) != exp["op"]:
        errs.append("op %s != %d" % (h["op"], exp["op"]))
    if int(h["nrows"]) != 1 and int(h["op"]) not in (XOP["XOP_NOP"], XOP["XOP_XCHG"]):
        errs.append("nrows %s" % h["nrows"])
    if int(h["vex"]) != exp["vex"]:
        errs.append("vex")
    if exp["osize"] is not None and int(h["osize"]) != exp["osize"]:
        errs.append("osize %s != %s" % (h["osize"], exp["osize"]))
    if exp["far"] is not None and int(h["far"]) != exp["far"]:
        errs.append("far")
    opds = exp["opds"]
    if opds and opds[0][0] in ("regset", "memreg"):
        # symmetric forms (xchg, register-register moves with two opcodes)
        if opds[0][0] == "regset":
            a, b = opds[0][1]
            got = set(ops)
            if got != {a.expect(), b.expect()} and not (len(ops) == 2 and {ops[0], ops[1]} == {a.expect(), b.expect()}):
                errs.append("regset %s" % ops)
        else:
            _, m, sz, r = opds[0]
            ok = False
            for o in ops:
                k, d = parse_opd(o)
                if k == "mem" and mem_matches(d, m, sz):
                    ok = True
            if not ok or r.expect() not in ops:
                errs.append("memreg %s" % ops)
        return errs
    if len(ops) != len(opds):
        errs.append("nopd %d != %d" % (len(ops), len(opds)))
        return errs
    for o, e in zip(ops, opds):
        k, d = parse_opd(o)
        if e[0] == "reg":
            if o != e[1].expect():
                errs.append("%s != %s" % (o, e[1].expect()))
        elif e[0] == "regnum":
            if k != "reg" or d["num"] != e[1]:
                errs.append("regnum")
        elif e[0] == "mem":
            if k != "mem" or not mem_matches(d, e[1], e[2]):
                errs.append("mem %s vs %s" % (o, e[1].text()))
        elif e[0] == "anymem":
            if k != "mem" or d["msize"] != e[1]:
                errs.append("anymem")
        elif e[0] == "imm":
            w = e[2]
            mask = (1 << w) - 1
            if k != "imm" or (d["v"] & mask) != (e[1] & mask):
                errs.append("imm %s vs %d" % (o, e[1]))
        elif e[0] == "imm8":
            if k != "imm" or (d["v"] & 0xff) != e[1]:
                errs.append("imm8 %s vs %d" % (o, e[1]))
        elif e[0] == "movimm":
            # any of the three mov encodings; effect on the 64-bit register
            eff = d["v"] & 0xffffffffffffffff
            if int(ops[0].split("rc=")[1].split()[0]) == RC["g32"]:
                eff = d["v"] & 0xffffffff
            if k != "imm" or eff != e[1]:
                errs.append("movimm %s vs %x" % (o, e[1]))
        elif e[0] == "rel":
            if k != "rel" or d["v"] != e[1] or d["w"] != e[2]:
                errs.append("rel %s vs %s" % (o, e[1:]))
    return errs


def main():
    n = int(sys.argv[1]) if len(sys.argv) > 1 else 6
    seed = int(sys.argv[2]) if len(sys.argv) > 2 else int(os.environ.get("VERIF_SEED", "1"))
    rnd = random.Random(seed)
    cases = list(gen(rnd, n))
    wd = tempfile.mkdtemp(prefix="vf-xdec-")
    try:
        cli = os.path.join(wd, "xdec")
        subprocess.check_call(["gcc", "-O1", "-w", "-I" + os.path.join(V, "c"), os.path.join(V, "c", "x86dec_cli.c"),
                               os.path.join(V, "c", "x86dec.c"), "-o", cli])
        asm = os.path.join(wd, "t.asm")
        with open(asm, "w") as f:
            f.write("BITS 64\n")
            for t, _ in cases:
                f.write(t + "\n")
        lst = os.path.join(wd, "t.lst")
        r = subprocess.run(["nasm", "-w-all", "-f", "bin", asm, "-o", os.path.join(wd, "t.bin"), "-l", lst],
                           stdout=subprocess.PIPE, stderr=subprocess.PIPE)
        if r.returncode != 0:
            print("nasm rejected generated cases:\n" + r.stderr.decode()[:3000])
            return 2
        by_line = {}
        for ln in open(lst):
            m = re.match(r"\s*(\d+) ([0-9A-F]{8}) ([0-9A-F]+)(-?)", ln)
            if m:
                by_line.setdefault(int(m.group(1)), "")
                by_line[int(m.group(1))] += m.group(3)
        hexes = [by_line.get(i + 2, "") for i in range(len(cases))]
        out = subprocess.run([cli], input="\n".join(hexes) + "\n", stdout=subprocess.PIPE, universal_newlines=True).stdout.splitlines()
        # objdump lengths
        bad = 0
        for (t, e), hx, dec in zip(cases, hexes, out):
            errs = []
            if not hx:
                errs.append("no bytes from nasm")
            else:
                h = dict(kv.split("=") for kv in dec.split("|")[0].split())
                if int(h["len"]) != len(hx) // 2:
                    errs.append("length %s != %d" % (h["len"], len(hx) // 2))
                else:
                    errs += check(t, e, dec)
            if errs:
                bad += 1
                if bad <= 25:
                    print("MISMATCH %-45s %-24s %s\n    %s" % (t, hx, errs, dec))
        # objdump agreement on instruction boundaries
        od = subprocess.run(["objdump", "-D", "-b", "binary", "-mi386:x86-64", "-M", "intel", os.path.join(wd, "t.bin")],
                            stdout=subprocess.PIPE, universal_newlines=True).stdout
        starts = set()
        for ln in od.splitlines():
            m = re.match(r"\s*([0-9a-f]+):\t", ln)
            if m and not re.search(r"\t\s*$", ln):
                starts.add(int(m.group(1), 16))
        pos = 0
        odbad = 0
        for hx in hexes:
            if pos not in starts:
                odbad += 1
            pos += len(hx) // 2
        print("x86dec validation: %d cases, %d mismatches, %d objdump boundary disagreements (seed %d)" % (len(cases), bad, odbad, seed))
        return 1 if bad or odbad else 0
    finally:
        import shutil
        shutil.rmtree(wd, ignore_errors=True)


if __name__ == "__main__":
    sys.exit(main())
