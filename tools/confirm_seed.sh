#!/bin/bash
# confirm_seed.sh <seeded/dir>: my own confirmation of a seeded change, in a scratch worktree of /repo (HEAD):
#   1. the patch applies and the tree builds
#   2. `make check -j1` still shows the 96 stable PASS
#   3. the demonstration fails with the change and passes without it
# Prints one line "CONFIRM <id> apply=.. build=.. pass=NN demo_with=RC demo_without=RC"; removes the worktree.
sd=$(realpath "${1:?}")
id=$(basename "$sd")
w=/tmp/confirm/$id
mkdir -p /tmp/confirm
git -C /repo worktree remove --force "$w" >/dev/null 2>&1
/verif/tools/mk_scratch.sh "$w" >/dev/null 2>&1 || { echo "CONFIRM $id scratch-failed"; exit 2; }
cd "$w" || exit 2
mkdir -p _seed; cp "$sd"/* _seed/ 2>/dev/null
if git apply _seed/patch.diff 2>/dev/null; then ap=ok; else ap=FAILED; fi
if make -j8 >/dev/null 2>&1; then b=ok; else b=FAILED; fi
pass=$(make check -j1 2>&1 | grep -c "^PASS")
demo() {
  if [ -f _seed/run.sh ]; then timeout 600 sh _seed/run.sh >/dev/null 2>&1; echo $?
  elif [ -f _seed/demo.sh ]; then timeout 600 bash _seed/demo.sh >/dev/null 2>&1; echo $?
  else echo none; fi
}
dw=$(demo)
git apply -R _seed/patch.diff 2>/dev/null; make -j8 >/dev/null 2>&1
dwo=$(demo)
echo "CONFIRM $id apply=$ap build=$b pass=$pass demo_with=$dw demo_without=$dwo"
cd /; git -C /repo worktree remove --force "$w"
