#!/usr/bin/env python3
"""Generates spec/kinds.json: for every documented mnemonic, the operand-kind
tuples (r = scalar register incl. MMX, v = xmm, y = ymm, m = memory, i =
immediate; 0..3 operands, plus the 4-operand shapes) for which *nasm* accepts
at least one size assignment in 64-bit mode.  Everything else is a kind
combination x86-64 does not define for that mnemonic (C10 demands rejection).
The table is committed; `./vf setup` re-generates it and compares."""
import itertools, json, os, re, subprocess, sys, tempfile
V = os.path.dirname(os.path.dirname(os.path.abspath(__file__)))
sys.path.insert(0, V)
from vflib import forms as F

CAND = {"r": ["rax", "eax", "ax", "al", "mm0", "cl"], "v": ["xmm1"], "y": ["ymm1"],
        "m": ["[rax]", "byte [rax]", "word [rax]", "dword [rax]", "qword [rax]"], "i": ["1"]}
ALIASES = {"nop%d" % i: "nop" for i in range(2, 12)}


def main(out=None):
    mns = [m for m in F.ALL_MNEMONICS]
    lines = []
    owner = []
    for mn in mns:
        real = ALIASES.get(mn, mn)
        tuples = [""] + ["".join(t) for n in (1, 2, 3) for t in itertools.product("rvymi", repeat=n)] + ["yymi", "yyyi", "vvvi", "vvmi"]
        for t in tuples:
            for combo in itertools.product(*[CAND[k] for k in t]):
                lines.append("%s %s" % (real, ", ".join(combo)))
                owner.append((mn, t))
    wd = tempfile.mkdtemp(prefix="vf-kinds-")
    asm = os.path.join(wd, "k.asm")
    with open(asm, "w") as f:
        f.write("BITS 64\n")
        f.write("\n".join(lines) + "\n")
    r = subprocess.run(["nasm", "-w-all", "-f", "bin", asm, "-o", os.path.join(wd, "k.bin")], stderr=subprocess.PIPE, universal_newlines=True)
    bad = set()
    for l in r.stderr.splitlines():
        m = re.match(r".*k\.asm:(\d+): error", l)
        if m:
            bad.add(int(m.group(1)))
    valid = {}
    for i, (mn, t) in enumerate(owner):
        if (i + 2) not in bad:
            valid.setdefault(mn, set()).add(t)
    import shutil
    shutil.rmtree(wd, ignore_errors=True)
    doc = {mn: sorted(valid.get(mn, [])) for mn in mns}
    txt = json.dumps(doc, indent=0, sort_keys=True)
    if out:
        with open(out, "w") as f:
            f.write(txt + "\n")
    return doc


if __name__ == "__main__":
    d = main(os.path.join(V, "spec", "kinds.json") if len(sys.argv) < 2 else sys.argv[1])
    print(len(d), sum(len(v) for v in d.values()))
