#!/usr/bin/env python3
"""Writes seeded/<id>/meta.json from the table below (the long-form description
of each seeded change, written by the sub-agent that produced it, is meta.txt
next to it).  'needs' = what must come together for the change to show;
'confirmed' = what I ran myself before keeping it; 'detected_by' = the check
queries that report it (./tools/try_seed.sh seeded/<id> ./vf check ...)."""
import json
import os

HERE = os.path.dirname(os.path.abspath(__file__))
SEEDS = {
 "c01-rex-sil-in-reg-field": dict(property="C01", file="src/prefix.c get_rex_prefix",
    change="the two 'spl/bpl/sil/dil needs an empty REX' tests folded into one test on size_reg",
    needs="8-bit register-register form; spl/bpl/sil/dil in ModRM.reg (2nd operand of MR forms, 1st of xchg); other operand al/cl/dl/bl so nothing else forces REX",
    demo="demo.sh (+opts.c)"),
 "c02-disp-minus-129": dict(property="C02", file="src/reg_parser.c process_neg_disp",
    change="neg_num < CHECK_8_BIT -> <=: magnitude 0x81 treated as fitting disp8",
    needs="memory operand with base register and displacement exactly -129 (one value)", demo="demo.sh"),
 "c03-mov32-0x80000000-strict": dict(property="C03", file="src/encoder.c encode_imm_data_transfer",
    change="IN_RANGE lower bound NEG32BIT_CHECK -> NEG32BIT_CHECK+1",
    needs="mov with 32-bit destination, immediate exactly 2^31 mod 2^32, mov-immediate handling not NASM", demo="demo.sh"),
 "c04-vpmulhrsw-xmm-wig": dict(property="C04", file="src/instructions.c one table row",
    change="xmm row of vpmulhrsw W0 -> WIG, so the 2-byte C5 VEX prefix drops the 0F38 map",
    needs="vpmulhrsw xmm form only, third operand not needing VEX.B (xmm0-7 / low base, no extended index)", demo="demo.sh"),
 "c05-rel8-128-wraps": dict(property="C05", file="src/parser.c line_to_instr",
    change="fits_rel8 upper bound 0x7f -> 0x80", needs="displacement exactly +128 on a mnemonic with a rel8 form, no keyword or 'short'", demo="demo.sh"),
 "c06-is-sib-leaks-across-lines": dict(property="C06", file="src/parser.c assemble_all",
    change="struct instr hoisted out of the per-line loop, reset helper forgets the is_sib bit-field",
    needs="same call: a line with an index register followed (any distance) by push/pop reg or push qword [reg]; never shows for a line alone or across calls", demo="demo.c run.sh"),
 "c07-fitting-room-check-hoisted": dict(property="C07", file="src/parser.c assemble_with_chunk_fitting",
    change="room check hoisted out of the pad-and-retry loop",
    needs="caller buffer, chunk fitting on, offset within 20..(pad+len) of the end so that padding moves the instruction past buffer+n", demo="demo.c run.sh"),
 "c08-counting-stale-pointer": dict(property="C08", file="src/parser.c assemble_counting_chunks",
    change="destination pointer computed before check_len_or_resize()",
    needs="managed buffer, counting mode (chunk>=2), the instruction that triggers growth, and an mremap that moves the mapping", demo="demo.c run.sh"),
 "c09-lookup-index-negative": dict(property="C09", file="src/instr_parser.c str_to_instr_key",
    change="guard of instr_table_index[c-'a'] widened from 'a'..'z' to 'A'..'z'",
    needs="a line whose first filtered character is one of [ \\ ] ^ _ ` and whose operands form a valid layout", demo="demo.c run.sh"),
 "c10-del-byte-accepted": dict(property="C10", file="src/parser.c filter_assembly_str_fsa",
    change="'> ~' test replaced by !isascii()", needs="a line containing byte 0x7f (only that value)", demo="demo.sh"),
 "c11-nasm-hex16-not-narrowed": dict(property="C11", file="src/tokenizer.c imm_tok",
    change="16-hex-digit literal clears NASM mov-immediate handling in every mode, not only SMART",
    needs="mov r64, imm written with 16 hex digits (leading zeros), NASM mov-immediate mode", demo="demo.sh all12.sh"),
 "c12-set-all-smart-resets-sib": dict(property="C12", file="src/assemblyline.c asm_set_all",
    change="case SMART assigns DEFAULT to the whole option word instead of calling asm_mov_imm(SMART)",
    needs="a SIB dimension set STRICT earlier, then asm_set_all(SMART)", demo="demo.c run.sh"),
 "c13-nop9-modrm": dict(property="C13", file="src/common.h NOP9",
    change="ModRM byte of the 9-byte nop 0x84 -> 0x80 (8-byte nop + stray 00)", needs="chunk fitting with a gap of exactly 9 (or 9+k*11...) bytes before a boundary", demo="demo.c demo.sh run.sh trigger.asm"),
 "c14-start-offset-ignored": dict(property="C14", file="src/parser.c assemble_counting_chunks",
    change="free space computed from bytes written by this call instead of the buffer position",
    needs="counting call that starts at an offset not a multiple of the chunk size", demo="demo.c run.sh"),
 "c15-failed-counting-chunk": dict(property="C15", file="src/assemblyline.c asm_assemble_string_counting_chunks",
    change="restore of chunk_size moved below the failure return",
    needs="instance in fitting mode, a FAILED counting call with a different chunk size, then another call", demo="demo.c run.sh"),
 "c16-leading-zero-decimal-disp": dict(property="C16", file="src/reg_parser.c find_add_mem",
    change="decimal detection additionally requires the first digit not to be '0'",
    needs="memory operand with register and +/- DECIMAL displacement written with a leading zero", demo="demo.sh"),
 "c17-mremap-result-stored-before-check": dict(property="C17", file="src/parser.c check_len_or_resize",
    change="mremap result stored into al->buffer before the MAP_FAILED test",
    needs="managed buffer, growth, mremap fails; then any later use / destroy of the instance", demo="demo.c run.sh"),
 "c18-lookup-memo": dict(property="C18", file="src/instr_parser.c str_to_instr_key",
    change="one-entry memo of the last lookup in a file-scope static (non-atomic, unlocked)",
    needs="two threads assembling different mnemonics on independent instances, a particular interleaving", demo="demo.c run.sh"),
 "c19-mapfixed-length": dict(property="C19", file="src/assemblyline.c asm_mmap_file",
    change="file mapped over the reservation with st_size+1 instead of st_size",
    needs="file size an exact non-zero multiple of the page size", demo="demo.c run.sh"),
 "c20-strict-sib-swap-nasm": dict(property="C20", file="tools/asmline.c set_sib_all",
    change="--strict-sib maps its index/base-swap half to NASM", needs="--strict-sib and a line with [x+rsp]-style swap candidate", demo="demo.sh"),
 # ---- second round (sub-agents were told which site the first round used and asked for a different mechanism) ----
 "c02-nobase-r13-zero-disp-mask": dict(property="C02", file="src/prefix.c get_reg",
    change="after the NASM no-base rewriting the rbp/r13 zero-disp8 rule tests (reg & REG_MASK) instead of VALUE_MASK, so r13/r13d no longer match",
    needs="memory operand without base, index r13/r13d, scale 1 or 2, no displacement, NASM no-base mode", demo="demo.sh"),
 "c03-push-neg-imm8-range": dict(property="C03", file="src/parser.c line_to_instr",
    change="push imm8/imm32 row choice uses NEG8BIT instead of NEG80BIT: -256..-129 stay on the imm8 row",
    needs="push with an immediate in [-256,-129]", demo="demo.sh"),
 "c04-rex-before-getreg-three-opd": dict(property="C04", file="src/encoder.c encode_three_opds",
    change="get_rex_prefix() moved before get_reg(), which rewrites a base-less operand (index becomes base)",
    needs="three-operand VEX form, memory operand without base, r8-r15 index, scale 1 or 2, NASM no-base mode", demo="demo.sh"),
 "c07-short-buffer-unsigned-wrap": dict(property="C07", file="src/parser.c check_len_or_resize",
    change="room test rewritten with unsigned last_pos = buffer_len - 20, which wraps for buffers shorter than 20",
    needs="caller buffer with n < 20, any assemble call", demo="demo.c run.sh"),
 "c10-third-operand-register-unchecked": dict(property="C10", file="src/parser.c check_registers",
    change="loop bound 3 -> THIRD_OPERAND (=2): the third operand's register error flag is never tested",
    needs="unknown register name in the third operand (or its base/index) of a 3/4-operand instruction", demo="demo.c demo.sh run.sh"),
 "c12-mov-imm-strict-keeps-nasm": dict(property="C12", file="src/assemblyline.c asm_mov_imm",
    change="STRICT case clears only SMART_MOV_IMM, not NASM_MOV_IMM",
    needs="mov-imm dimension currently NASM, then a STRICT setting; mov r64, imm32-fitting", demo="demo.c run.sh"),
 "c14-count-not-reset-below-2": dict(property="C14", file="src/parser.c assemble_all",
    change="*dest = 0 only in CHUNK_COUNT mode, so a counting call with chunk size < 2 leaves the caller's counter untouched",
    needs="counting call with chunk size < 2 and a counter variable that is not already 0", demo="demo.c run.sh"),
 "c17-fclose-result-ignored": dict(property="C17", file="src/assemblyline.c asm_create_bin_file",
    change="ferror() tested before fclose(), fclose()'s result discarded",
    needs="write failure that only shows at fclose (buffered data, ENOSPC/EFBIG)", demo="demo.c demo.sh run.sh"),
 "c19-counting-empty-file-munmap-len": dict(property="C19", file="src/assemblyline.c asm_mmap_file and wrappers",
    change="*str_len redefined as st_size; the counting wrapper still munmaps str_len (0 for an empty file -> EINVAL -> EXIT_FAILURE)",
    needs="asm_assemble_file_counting_chunks on an empty file", demo="demo.c run.sh"),
 "c20-smart-flag-deferred": dict(property="C20", file="tools/asmline.c parse_opt case 's'",
    change="-s records mov_imm for later instead of calling asm_set_all(SMART) at its position",
    needs="-s followed by -t or -n (or preceded by --nasm/--strict-mov-imm) and a mov r64, imm32-fitting", demo="demo.c demo.sh"),
 "c01-xchg-r8-al-short-form": dict(property="C01", file="src/encoder.c encode_operands",
    change="accumulator short form of xchg chosen when (mode != noext8) instead of (mode > noext8): al as second operand takes the 90+rd row",
    needs="xchg <reg8>, al (8-bit, al second)", demo="demo.sh"),
 "c05-neg-rel32-extra-zero-strict": dict(property="C05", file="src/assembler.c check_zero",
    change="the CONTROL_FLOW exclusion moved behind the 'not NASM mov-imm' early return: negative rel32 gets the extra zero byte and is padded to 8",
    needs="rel32 form with a negative displacement and the NASM mov-immediate bit clear (STRICT, or SMART with a 16-digit hex literal)", demo="demo.c demo.sh run.sh"),
 "c06-grow-copies-committed-offset-only": dict(property="C06", file="src/parser.c check_len_or_resize",
    change="mremap replaced by mmap+memcpy(al->offset bytes)+munmap: bytes the running call has already emitted are not copied",
    needs="managed buffer, a multi-line call that crosses a 6000-byte growth point after emitting at least one instruction", demo="demo.c demo.sh run.sh"),
 "c08-counting-on-instance-copy": dict(property="C08", file="src/assemblyline.c asm_assemble_string_counting_chunks",
    change="counting runs on a shallow copy of the instance; only the offset is copied back, so a growth inside the call is lost",
    needs="managed buffer, counting call, growth during that call", demo="demo.c demo.sh run.sh"),
 "c09-lone-cr-no-progress": dict(property="C09", file="src/parser.c str_to_instr",
    change="line terminator step rewritten as CRLF-pair handling: a CR not followed by LF is never consumed (zero progress, endless loop)",
    needs="text with a carriage return not followed by a line feed", demo="demo.c demo.sh run.sh"),
 "c11-nobase-r12-r13-mask": dict(property="C11", file="src/prefix.c get_reg",
    change="bpl/spl comparisons after the no-base rewriting use REG_MASK instead of VALUE_MASK",
    needs="NASM no-base option, no base, scale 1 or 2, index r13 (no displacement) or r12 (scale 1)", demo="demo.sh combo.sh"),
 "c13-modulo-as-mask": dict(property="C13", file="src/parser.c assemble_with_chunk_fitting",
    change="pos % chunk replaced by pos & (chunk-1)", needs="chunk fitting with a chunk size that is not a power of two", demo="demo.c demo.sh run.sh"),
 "c15-set-chunk-size-shortcut": dict(property="C15", file="src/assemblyline.c asm_set_chunk_size",
    change="early return when the requested size equals al->chunk_size, which the '<2' branch never updates",
    needs="history set_chunk_size(N), set_chunk_size(0|1), set_chunk_size(N) again", demo="demo.c run.sh"),
 "c16-upper-z-not-lowered": dict(property="C16", file="src/parser.c filter_assembly_str_fsa",
    change="tolower replaced by a helper whose range test stops at 'Y'", needs="an upper-case 'Z' in a mnemonic (MOVZX, BZHI, SETZ, CMOVZ, JRCXZ ...)", demo="demo.sh"),
 "c18-index-tables-rebuilt-backwards": dict(property="C18", file="src/assemblyline.c asm_build_index_tables",
    change="tables filled walking backwards, storing every row: entries are transiently wrong while any thread creates an instance",
    needs="one thread in asm_create_instance while another assembles on its own instance", demo="demo.c run.sh"),
 # ---- third round (8 properties; told about both earlier sites) ----
 "c06-disp32-pad-byte-not-stored": dict(property="C06", file="src/assembler.c assemble_mem_const",
    change="zero padding of the 4-byte displacement rewritten as a count-down loop with '>' instead of '>=': one pad byte is never stored",
    needs="disp32 / absolute address with a non-negative value below 0x1000000 AND a non-zero byte already in the buffer at that position", demo="demo.c run.sh"),
 "c09-bare-keyword-null-deref": dict(property="C09", file="src/reg_parser.c get_operand_type (+ unchanged imm_tok)",
    change="tail of get_operand_type 'simplified': the terminating NUL is now typed as an immediate; imm_tok then dereferences strtok_r's NULL",
    needs="an operand that is only a size/distance keyword (push byte, jmp short, mov rax, qword)", demo="demo.c demo.sh run.sh"),
 "c10-vex-three-opd-rsp-index-accepted": dict(property="C10", file="src/encoder.c encode_three_opds",
    change="now calls encode_two_opds and ignores its result: get_reg's rejection of the stack pointer as scaled index is lost for RVM/RMV forms",
    needs="three-operand VEX/BMI form whose memory operand has rsp/esp as scaled index or as base and index", demo="demo.c demo.sh run.sh"),
 "c13-multi-nop-pointer-not-advanced": dict(property="C13", file="src/assembler.c nop_padding",
    change="*ptr++ = b became *(ptr + i) = b: the second NOP of a gap overwrites the first, the tail of the gap keeps stale bytes",
    needs="padding gap of 12 bytes or more (chunk >= 14, instruction of 13+ bytes)", demo="demo.sh"),
 "c14-multi-boundary-counted-twice": dict(property="C14", file="src/parser.c assemble_counting_chunks",
    change="count += last_chunk - first_chunk instead of +1 when the instruction does not fit",
    needs="an instruction spanning three or more chunks (length >= c+2, so c <= 13)", demo="demo.c run.sh"),
 "c16-label-blank-after-colon": dict(property="C16", file="src/parser.c str_to_instr",
    change="label test 'contains a colon' became 'ends with a colon' (the filter keeps the first blank after the first word)",
    needs="label line with a blank directly after the colon", demo="demo.sh"),
 "c19-binfile-no-truncate": dict(property="C19", file="src/assemblyline.c asm_create_bin_file",
    change="fopen(\"wb\")/fwrite/fclose rewritten with open/write/close without O_TRUNC",
    needs="target file that already holds more bytes than the code", demo="demo.c demo.sh run.sh"),
 "c20-stdin-failure-exit-status-with-P": dict(property="C20", file="tools/asmline.c main",
    change="stdin loop records the failure in a status variable instead of exit(); the -P/-o path returns create_binary_file's result",
    needs="stdin source, a rejected line, and -P or -o", demo="demo.sh"),
}
CONFIRMED = ("applied in a scratch worktree of /repo: builds, `make check -j1` gives the same 96 PASS set as the unchanged tree; "
             "the demonstration fails with the change and passes without it")


def main():
    res = {}
    rp = os.path.join(HERE, "..", "seeded", "RESULTS.json")
    if os.path.exists(rp):
        res = json.load(open(rp))
    for sid, m in SEEDS.items():
        d = os.path.join(HERE, "..", "seeded", sid)
        if not os.path.isdir(d):
            print("missing", sid); continue
        doc = {"id": sid, "property": m["property"], "where": m["file"], "change": m["change"],
               "needs_to_manifest": m["needs"], "demonstration": m["demo"], "patch": "patch.diff",
               "long_description": "meta.txt", "confirmed_by_me": CONFIRMED,
               "how_to_test": "./tools/try_seed.sh seeded/%s ./vf check %s" % (sid, m["property"]),
               "detection": res.get(sid, {"status": "not yet run"})}
        with open(os.path.join(d, "meta.json"), "w") as f:
            json.dump(doc, f, indent=1)
            f.write("\n")
    print("wrote", len(SEEDS))


if __name__ == "__main__":
    main()
