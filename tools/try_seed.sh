#!/bin/bash
# usage: try_seed.sh <seed-dir> <check command...>
# applies the seeded change to /repo, runs the command, and always reverts
d=$1; shift
git -C /repo apply "$(realpath "$d")/patch.diff" || { echo "patch does not apply"; exit 9; }
# (runs against a seeded tree never overwrite the evidence files of the real tree)
VF_NO_EVIDENCE=1 "$@"
rc=$?
git -C /repo checkout -- . 
echo "try_seed: command exit status $rc; /repo reverted: $(git -C /repo status --short | wc -l) modified files"
exit $rc
