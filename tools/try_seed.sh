#!/bin/bash
# usage: try_seed.sh <seed-dir> <check command...>
# applies the seeded change to /repo, runs the command, and always reverts
d=$1; shift
git -C /repo apply "$(realpath "$d")/patch.diff" || { echo "patch does not apply"; exit 9; }
"$@"
rc=$?
git -C /repo checkout -- . 
echo "try_seed: command exit status $rc; /repo reverted: $(git -C /repo status --short | wc -l) modified files"
exit $rc
