#!/bin/bash
# usage: try_seed_scratch.sh <seed-dir> <check command...>
# like try_seed.sh, but leaves /repo alone: the seeded change is applied to a scratch
# worktree of /repo's HEAD and the checks are pointed at it with VF_REPO.
d=$(realpath "${1:?}"); shift
id=$(basename "$d")
w=/tmp/seedrun/$id
mkdir -p /tmp/seedrun
git -C /repo worktree remove --force "$w" >/dev/null 2>&1
git -C /repo worktree add -q --detach "$w" HEAD || exit 9
cp /repo/config.h "$w"/ 2>/dev/null
git -C "$w" apply "$d/patch.diff" || { echo "patch does not apply"; git -C /repo worktree remove --force "$w"; exit 9; }
VF_REPO="$w" VF_NO_EVIDENCE=1 "$@"
rc=$?
git -C /repo worktree remove --force "$w"
echo "try_seed_scratch: command exit status $rc"
exit $rc
