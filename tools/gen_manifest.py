#!/usr/bin/env python3
"""Regenerates MANIFEST.json from the table below (run after adding a check)."""
import json, os
V = os.path.dirname(os.path.dirname(os.path.abspath(__file__)))

MC = "model_checking"
ENC_NOTE = "Trusts x86dec.c (validated against nasm/objdump at setup), the str_to_reg/strtoul contract stubs, the libc models, CBMC 6.11 + CaDiCaL; text is concrete per skeleton (TOK lemmas cover other spellings)."
ENC_TECH = "CBMC bounded symbolic execution of the real C pipeline per text skeleton, SAT (CaDiCaL), reference-decoder oracle, native replay of counterexamples"
GLUE_NOTE = "Per-line work abstracted to lines of symbolic kind/length (justified by ENC verdicts); libc models; counterexamples replayed natively with real instruction text."
GLUE_TECH = "CBMC bounded symbolic execution of the real API layer with per-line stubs, SAT (CaDiCaL), native replay under ASan/UBSan"
OS_NOTE = "OS model /verif/c/vf_os.c (page size, mmap/mremap/munmap/file calls, fault schedule) is part of the claim; replay uses the real system calls with injected faults."
TOK_NOTE = "Unit-level decomposition of the text layer (whole-line symbolic text is out of reach of CBMC on this parser); libc models; leaf findings count only if they reproduce through the public API."

CHECKS = {
    # id: (engine, level, text, note, technique, design_ref)
    "C01": ("ENC", MC, "Bounded symbolic verdict per skeleton (mnemonic x register-operand form): for all register tuples of all widths, all 12 option combinations and arbitrary prior buffer contents the real pipeline from asm_assemble_str emits bytes the reference decoder reads back as exactly the written instruction. Not a proof: text is concrete per skeleton, loops are unwound with unwinding assertions.", ENC_NOTE, ENC_TECH, "5/C01"),
    "C02": ("ENC", MC, "Same engine per (memory-taking form x documented memory shape x scale x keyword): base/index over all 64/32-bit registers, displacement over its whole signed range, decoded effective address compared as a linear form with the written one; STRICT literal stack-pointer index accepted as documented.", ENC_NOTE, ENC_TECH, "5/C02"),
    "C03": ("ENC", MC, "Same engine per (immediate-taking form x destination kind x literal spelling): the value ranges over everything representable at the destination width; decoded immediate after sign/zero extension equals the written value; mov r64 judged by its architectural effect in all three modes.", ENC_NOTE, ENC_TECH, "5/C03"),
    "C04": ("ENC", MC, "Same engine over every documented MMX/SSE/AVX/AVX2/BMI2/ADX register form: all register tuples, all options; the decoder checks mandatory prefix, map, VEX.L/W/vvvv and inverted R/X/B through the decoded operation and operands; plus the vector/VEX forms with a memory operand on the shapes that exercise X, B and the index-to-base rewriting.", ENC_NOTE, ENC_TECH, "5/C04"),
    "C05": ("ENC", MC, "Same engine per (branch mnemonic x keyword x spelling): displacement symbolic over +-2^62; accepted => rel8/rel32 form of that operation with field == d; representable => accepted; short/rel8-only and out of range => rejected with no bytes; indirect and far forms through the C02 shapes.", ENC_NOTE, ENC_TECH, "5/C05"),
    "C06": ("GLUE", MC, "API-layer verdict: programs of K abstract lines from an arbitrary start offset with arbitrary options and buffer contents give exactly the concatenation of the lines' signatures, and the same buffer when split at an arbitrary line boundary over two calls. ENC context family: ordered pairs (concrete line of 8..14 encoding classes, skeleton line with symbolic registers/numbers/options) through the whole real pipeline in one call: the first line's bytes are those it yields alone and the second decodes as written (no encoder state survives a line).", GLUE_NOTE, GLUE_TECH, "5/C06"),
    "C07": ("GLUE", MC, "Histories of H arbitrary API calls (chunk size, offset, plain/fitting/counting assembly with failing lines, other instances) on a buffer of symbolic length: every instruction write is range-checked by the stub, NOP writes by buffer comparison, anything else by CBMC's pointer checks; 20-byte reserve rule asserted.", GLUE_NOTE, GLUE_TECH, "5/C07"),
    "C08": ("GLUE+OS", MC, "Managed-buffer growth with the growth quantum scaled down: successive calls from arbitrary offsets in all three modes, mremap moving or not; offsets, per-instruction positions and counts equal a reference instance on a large caller buffer; mremap/munmap/memcpy receive live addresses and sizes; every write goes to a live mapping; the byte at one nondeterministic offset (standing for every offset) is tracked through writes, moves and copies and equals the reference; RWX protection.", OS_NOTE, GLUE_TECH + "; OS model", "5/C08"),
    "C09": ("TOK+ENC", MC, "Memory safety and termination per unit: line filter on all byte strings up to 40 bytes (120 in the thorough tier) and on a 90-character fixed prefix followed by 16 arbitrary bytes (crossing the end of the line buffer), operand count 1..7, every scanner on arbitrary strings of every length up to 10 placed at the start and flush against the end of the line buffer, the mnemonic lookup for every possible first character, the composed operand splitter with arbitrary operand characters (thorough tier only), and the encoder/emitter on well-formed skeletons, all with CBMC's pointer/bounds/overflow/shift checks and unwinding assertions.", TOK_NOTE, "CBMC bounded symbolic execution of each text-layer unit on arbitrary bounded strings with all memory-safety checks, SAT (CaDiCaL)", "5/C09"),
    "C10": ("ENC+TOK+GLUE", MC, "Rejection: malformed skeletons through the whole pipeline must return EXIT_FAILURE and leave the buffer unchanged; every operand-kind string per mnemonic at the lookup level against nasm's verdicts; str_to_reg on every string <= 5 chars; non-printable bytes; failing line at any position in every mode.", ENC_NOTE + " " + TOK_NOTE, ENC_TECH, "5/C10"),
    "C11": ("ENC", MC, "mov r64, imm per spelling: which of the three encodings each mode selects, for every value; SIB swap / no-base shapes encoded as documented per option; non-interference: representative lines assembled on two instances under two arbitrary option combinations give identical bytes.", ENC_NOTE, ENC_TECH, "5/C11"),
    "C12": ("GLUE", MC, "One-step query from every documented option state x five setters x every 32-bit option value against the documented transition function, frame on a second instance, plus direct sequences; induction over the state gives sequences of any length.", "Oracle spec_next written from the documentation; option bits compared through the masks of /repo/src/common.h.", "CBMC bounded symbolic execution of the real setters, SAT", "5/C12"),
    "C13": ("GLUE", MC, "Per chunk size: one-instruction step query from arbitrary buffer length/offset (inductive over lines), two-call queries switching fitting, chunk sizes below 2: padding only where needed, valid NOPs of the gap length, instructions shorter than the chunk never straddle, code bytes preserved.", GLUE_NOTE, GLUE_TECH, "5/C13"),
    "C14": ("GLUE", MC, "Per chunk size: two consecutive counting calls from arbitrary offsets; count equals the number of boundary-spanning instructions of that call, positions equal plain assembly, zero for chunk sizes below 2.", GLUE_NOTE, GLUE_TECH, "5/C14"),
    "C15": ("GLUE", MC, "Instance A after an arbitrary history of H calls vs. a fresh instance B with the same options, chunk setting and offset: same return value, final offset and bytes for the final call; failed calls leave earlier bytes intact.", GLUE_NOTE, GLUE_TECH, "5/C15"),
    "C16": ("TOK+ENC", MC, "Relational queries: two spellings of a line (case flips, inserted blanks, runs of 100+ blanks/tabs, trailing comment / CRLF, label/section/global lines) hand the same string to the tokenizer; the same symbolic value in hexadecimal, decimal and with leading zeros gives identical bytes on two instances.", TOK_NOTE + " " + ENC_NOTE, "CBMC relational queries on the real filter/str_to_instr and on the whole pipeline, SAT", "5/C16"),
    "C17": ("GLUE+OS", MC, "Fault schedule symbolic: each kind of OS call may fail at its 1st..4th occurrence, all kinds independently, in four scenarios (managed create/grow/destroy, caller buffer, file assembly, binary output): no CBMC memory-safety failure, documented return values, live mapping still reported, instance destroyable.", OS_NOTE, GLUE_TECH + "; OS model with symbolic fault schedule", "5/C17"),
    "C18": ("SHARED", "other", "Reduced scope: general schedules are NOT explored (CBMC aborts on pthread harnesses over this code). Decided by CBMC with interrupt instrumentation (goto-instrument --isr): at every access to the two index arrays during a build, a reader in another thread may load an entry and sees only its initial or its final value (one preempting reader, access granularity; c18.observe, replayed with two native threads). Decided sequentially by CBMC: the index build is deterministic, idempotent, stores each entry once (S2, S3); every lookup gives the same answer whether its index entry is 0 or built (S4). Audited on the LLVM IR: the only mutable static objects are the two index arrays, all accesses to them are atomic, no non-re-entrant libc call (S1, S5). Race freedom follows by an argument on C11 atomics, which is not a solver verdict.", "The final implication (S1-S5 => per-thread results equal single-threaded ones) is argued, not decided; races inside libc are not covered.", "CBMC queries on the shared lookup state: one-preempting-reader interleavings via goto-instrument --isr, sequential determinism/idempotence/lookup-robustness queries, LLVM IR audit of mutable statics and atomic accesses", "5/C18"),
    "C20": ("CLI", "other", "Reduced scope: the real tools/asmline.c with the asm_* API replaced by a recording model and getopt_long by a contract stub: for every sequence of up to N options and FILE/stdin source, option calls, entry-point selection, -c/-b/-P/-o handling, printed count and exit status are as documented. -r, getopt's string matching and byte-level output equality are outside (the latter is C19/C06 on the library side).", "Recording model of the library API; contract stubs for getopt_long/getline/printf/exit/atoi/strchr/snprintf.", "CBMC bounded symbolic execution of tools/asmline.c with recording API model and getopt contract stub", "5/C20"),
    "C19": ("GLUE+OS", MC, "File model with symbolic size 0..3 model pages and arbitrary contents: the text handed to the in-memory entry point is the file's contents, NUL-terminated inside the mapping; results passed through; missing file fails; binary output leaves a file holding exactly [0, offset) whatever the file held before (fopen-mode semantics).", OS_NOTE, GLUE_TECH + "; OS model", "5/C19"),
}

def main():
    props = [json.loads(l) for l in open(os.path.join(V, "properties.jsonl"))]
    checks = []
    na = []
    for p in props:
        pid = p["id"]
        if pid in CHECKS:
            eng, level, text, note, tech, ref = CHECKS[pid]
            checks.append({
                "property_id": pid,
                "quick_cmd": "./vf check %s --tier quick" % pid,
                "thorough_cmd": "./vf check %s --tier thorough" % pid,
                "evidence_file": "evidence/%s.json" % pid,
                "replay_cmd_template": "./vf replay {path}",
                "engine": eng,
                "level_claimed": {"category": level, "text": text, "design_ref": "DESIGN.md " + ref},
                "level_note": note,
                "technique": tech,
            })
        else:
            na.append({"property_id": pid, "reason": NA.get(pid, "check not built yet in this revision (work in progress, see DESIGN.md)")})
    m = {
        "version": 1,
        "setup_cmd": "./vf setup",
        "hooks": {"guard": "ASSEMBLYLINE_VERIF", "enable": "checks compile /repo/src with goto-cc -DASSEMBLYLINE_VERIF; no source hook is needed (static functions are exported by goto-cc, callees replaced by goto-instrument)",
                  "baseline_off_cmd": "./tools/baseline.sh", "source_commits": [], "add_only": True},
        "engines": [
            {"name": "ENC", "path": "vflib/enc.py", "serves_properties": ["C01", "C02", "C03", "C04", "C05", "C09", "C10", "C11", "C16"], "kind_free_text": "CBMC on the whole real pipeline per text skeleton, symbolic registers/numbers/options"},
            {"name": "GLUE", "path": "vflib/glue.py", "serves_properties": ["C06", "C07", "C08", "C10", "C12", "C13", "C14", "C15", "C17", "C19"], "kind_free_text": "CBMC on the real API layer with abstract lines; OS model for C08/C17/C19"},
            {"name": "CLI", "path": "vflib/cli.py", "serves_properties": ["C20"], "kind_free_text": "CBMC on tools/asmline.c with recording API model"},
            {"name": "SHARED", "path": "checks/c18.py", "serves_properties": ["C18"], "kind_free_text": "CBMC sequential queries on the index tables + LLVM IR audit"},
            {"name": "TOK", "path": "vflib/tok.py", "serves_properties": ["C09", "C10", "C16"], "kind_free_text": "CBMC on each text-layer unit with arbitrary bounded strings"},
        ],
        "checks": checks,
        "not_applicable": na,
        "notes": "All checks rebuild their goto binaries from /repo's working tree on every run; scratch under $TMPDIR is removed at exit.",
    }
    with open(os.path.join(V, "MANIFEST.json"), "w") as f:
        json.dump(m, f, indent=1)
        f.write("\n")

NA = {}
if __name__ == "__main__":
    main()
