#!/usr/bin/env python3
"""Regenerates MANIFEST.json from the table below (run after adding a check)."""
import json, os
V = os.path.dirname(os.path.dirname(os.path.abspath(__file__)))

MC = "model_checking"
CHECKS = {
    # id: (engine, level, text, note, technique, design_ref)
    "C01": ("ENC", MC,
            "Bounded symbolic verdict: for every skeleton (mnemonic x register-operand form) CBMC/CaDiCaL shows, for all register tuples of all widths, all 12 option combinations and arbitrary prior buffer contents, that the real pipeline from asm_assemble_str emits bytes the reference decoder reads back as exactly the written instruction. Not a proof: text is concrete per skeleton, loops are unwound with unwinding assertions.",
            "Trusts x86dec.c (validated against nasm/objdump), the str_to_reg/strtoul contract stubs, the libc models, CBMC 6.11 + CaDiCaL.",
            "CBMC bounded symbolic execution of the real C pipeline per text skeleton, SAT (CaDiCaL), reference-decoder oracle, native replay", "5/C01"),
    "C04": ("ENC", MC,
            "Same engine as C01 over every documented MMX/SSE/AVX/AVX2/BMI2/ADX register form: all register tuples (mm0-7, xmm/ymm0-15, 32/64-bit GPRs), all options; decoder checks mandatory prefix, map, VEX.L/W/vvvv and inverted R/X/B through the decoded operation and operands.",
            "As C01.",
            "CBMC bounded symbolic execution of the real C pipeline per text skeleton, SAT (CaDiCaL), reference-decoder oracle, native replay", "5/C04"),
}

def main():
    props = [json.loads(l) for l in open(os.path.join(V, "properties.jsonl"))]
    checks = []
    na = []
    for p in props:
        pid = p["id"]
        if pid in CHECKS:
            eng, level, text, note, tech, ref = CHECKS[pid]
            checks.append({
                "property_id": pid,
                "quick_cmd": "./vf check %s --tier quick" % pid,
                "thorough_cmd": "./vf check %s --tier thorough" % pid,
                "evidence_file": "evidence/%s.json" % pid,
                "replay_cmd_template": "./vf replay {path}",
                "engine": eng,
                "level_claimed": {"category": level, "text": text, "design_ref": "DESIGN.md " + ref},
                "level_note": note,
                "technique": tech,
            })
        else:
            na.append({"property_id": pid, "reason": NA.get(pid, "check not built yet in this revision (work in progress, see DESIGN.md)")})
    m = {
        "version": 1,
        "setup_cmd": "./vf setup",
        "hooks": {"guard": "ASSEMBLYLINE_VERIF", "enable": "checks compile /repo/src with goto-cc -DASSEMBLYLINE_VERIF; no source hook is needed (static functions are exported by goto-cc, callees replaced by goto-instrument)",
                  "baseline_off_cmd": "./tools/baseline.sh", "source_commits": [], "add_only": True},
        "engines": [
            {"name": "ENC", "path": "vflib/enc.py", "serves_properties": ["C01", "C02", "C03", "C04", "C05", "C11"], "kind_free_text": "CBMC on the whole real pipeline per text skeleton, symbolic registers/numbers/options"},
        ],
        "checks": checks,
        "not_applicable": na,
        "notes": "All checks rebuild their goto binaries from /repo's working tree on every run; scratch under $TMPDIR is removed at exit.",
    }
    with open(os.path.join(V, "MANIFEST.json"), "w") as f:
        json.dump(m, f, indent=1)
        f.write("\n")

NA = {}
if __name__ == "__main__":
    main()
