#!/bin/bash
# creates a scratch git worktree of /repo (HEAD) at $1 with the generated
# autotools files copied over, configured and built, so `make check` works there
set -e
d=$1
git -C /repo worktree add -q "$d" HEAD
cd /repo
cp -r configure Makefile.in aclocal.m4 build-aux m4 config.h.in "$d"/ 2>/dev/null || true
cd "$d"
./configure >/dev/null 2>&1
make -j8 >/dev/null 2>&1
echo "scratch worktree ready: $d"
