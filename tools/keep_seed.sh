#!/bin/bash
# keep_seed.sh <scratch-worktree> <seed-id>: copies <worktree>/_seed/{patch.diff,demo*,run.sh,meta.txt,...} to seeded/<seed-id>/
set -e
src=${1:?}/_seed
dst=/verif/seeded/${2:?}
mkdir -p "$dst"
for f in "$src"/*; do
  case "$(basename "$f")" in
    check_with*|check_without*|*.o|demo|a.out) ;;
    *) [ -f "$f" ] && [ ! -x "$f" -o "${f##*.}" = sh ] && cp "$f" "$dst"/ ;;
  esac
done
echo "$dst: $(ls "$dst" | tr '\n' ' ')"
