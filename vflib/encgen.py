"""Harness generator for the ENC engine: one C harness per text skeleton.

A skeleton keeps the line text concrete (mnemonic, punctuation, keywords,
placeholder register names, placeholder literals) and makes registers, numbers,
options and the start offset symbolic.  The same C file is compiled by goto-cc
(symbolic) and by gcc (replay with the real str_to_reg/strtoul and the real
register names / literals written into the text).
"""

GPR_PH = ["rax", "rcx", "rdx", "rbx", "rsi", "rdi"]

# input slots
IN_INST = 0            # 0..3 : mv, sw, nb, start
IN_REG = 4             # 4+2k, 5+2k
IN_NUM = 16            # 16+k
IN_EXTRA = 20


class Skel:
    """Builder for one harness."""

    def __init__(self, name, family, mnemonic):
        self.name = name
        self.family = family
        self.mnemonic = mnemonic
        self.nreg = 0
        self.nnum = 0
        self.decl = []      # C statements binding inputs
        self.parts = []     # text parts
        self.pre = []       # C statements before the call (assumptions)
        self.post = []      # C statements after decode (checks)
        self.expect_fail = False
        self.extra_lines_before = ""   # program text before the line (concrete)
        self.meta = {}
        self.accept = None  # custom acceptance code instead of the default decode checks
        self.regclass = {}
        self.high_rex = []  # C expressions: registers that matter for the high-byte/REX rule
        self.rexw = "0"     # C expression: instruction needs REX.W
        self.tags = set()
        self.want = "0"     # operation the decoder is asked to recognise (0 = any)
        self.pair = False   # non-interference: assemble the same text on a second instance with other options
        self.alt_parts = None  # C16: a second spelling of the same line, assembled with the same options
        self.context = None    # C06: (text of a concrete line assembled before this one in the same call, its bytes when assembled alone)

    # ---- inputs -------------------------------------------------------
    def reg(self, mask, letter="r"):
        """new register slot; letter: r (gpr or mm), x, y -> placeholder name"""
        k = self.nreg
        self.nreg += 1
        assert k < 6
        self.decl.append("struct areg R%d = vf_any_reg(%d, %d, %s); VF_SYM[%d] = vf_regval(R%d);"
                         % (k, IN_REG + 2 * k, IN_REG + 2 * k + 1, mask, k, k))
        self.regclass[k] = letter
        return k

    def regname(self, k):
        l = self.regclass[k]
        if l == "r":
            return GPR_PH[k]
        return "%smm%d" % (l, k)

    def num(self, limit_expr=None):
        k = self.nnum
        self.nnum += 1
        assert k < 3
        self.decl.append("unsigned long N%d = IN(%d); VF_NUM[%d] = N%d;" % (k, IN_NUM + k, k, k))
        if limit_expr:
            self.decl.append("ASSUME(%s);" % limit_expr.replace("$", "N%d" % k))
        return k

    # ---- text ---------------------------------------------------------
    def t(self, s):
        self.parts.append(("s", s))
        return self

    def treg(self, k):
        self.parts.append(("r", k))
        return self

    def tnum(self, k, style, neg=False):
        """style: hex (1-15 digits), hexz (the same with leading zeros, < 16 digits), hex16, dec (>=2 digits)"""
        self.parts.append(("n", k, style, neg))
        if style == "hex":
            self.decl.append("ASSUME(N%d < (1ul << 60));" % k)
        if style == "hexz":
            self.decl.append("ASSUME(N%d < (1ul << 48));" % k)
        return self

    def text(self, parts=None):
        out = ""
        for p in (self.parts if parts is None else parts):
            if p[0] == "s":
                out += p[1]
            elif p[0] == "r":
                out += self.regname(p[1])
            else:
                _, k, style, neg = p
                d = str(k + 1)
                if style == "hex":
                    lit = "0x" + d * 4
                elif style == "hexz":
                    lit = "0x000" + d * 4
                elif style == "decz":
                    lit = "000" + d * 4
                elif style == "hex16":
                    lit = "0x" + d * 16
                else:
                    lit = d * 4
                out += ("-" if neg else "") + lit
        return out

    def replay_text_code(self, parts=None, var="vf_text", tag=""):
        fmt = ""
        args = []
        pre = []
        for i, p in enumerate(self.parts if parts is None else parts):
            if p[0] == "s":
                fmt += p[1].replace("%", "%%")
            elif p[0] == "r":
                fmt += "%s"
                args.append("vf_regname(R%d)" % p[1])
            else:
                _, k, style, neg = p
                st = {"hex": 0, "hex16": 1, "dec": 2, "hexz": 3, "decz": 4}[style]
                pre.append("char nb%s%d[40]; vf_fmt_num(nb%s%d, %d, %d);" % (tag, i, tag, i, k, st))
                fmt += ("-" if neg else "") + "%s"
                args.append("nb%s%d" % (tag, i))
        code = "\n  ".join(pre)
        code += '\n  snprintf(%s, sizeof vf_text, "%s%s\\n"%s);' % (
            var, c_escape(self.extra_lines_before), c_escape(fmt), "".join(", " + a for a in args))
        return code

    # ---- emit ---------------------------------------------------------
    def emit(self):
        L = []
        L.append('#include "enc.h"')
        L.append("void vf_frame_save(assemblyline_t al);")
        L.append("static char vf_text[256];")
        L.append("void harness(void) {")
        L.append("  int start;")
        L.append("  assemblyline_t al = vf_instance(%d, &start);" % IN_INST)
        for d in self.decl:
            L.append("  " + d)
        for d in self.pre:
            L.append("  " + d)
        # the instruction must be encodable in x86-64: no high-byte register
        # together with anything that needs a REX prefix
        if self.high_rex:
            anyhigh = " || ".join("vf_is_high(%s)" % r for r in self.high_rex if not r.startswith("M:"))
            needrex = " || ".join(["vf_needs_rex(%s)" % r for r in self.high_rex if not r.startswith("M:")] +
                                  ["vf_mem_needs_rex(&%s)" % r[2:] for r in self.high_rex if r.startswith("M:")] +
                                  ["(%s)" % self.rexw])
            if anyhigh:
                L.append("  ASSUME(!((%s) && (%s)));" % (anyhigh, needrex))
        L.append("  VF_REGION();")
        L.append("#ifdef VF_CBMC")
        L.append('  strcpy(vf_text, "%s\\n");' % c_escape(self.extra_lines_before + self.text()))
        L.append("#else")
        L.append("  " + self.replay_text_code())
        L.append('  printf("TEXT %s", vf_text);')
        L.append("#endif")
        L.append("  int rc = asm_assemble_str(al, vf_text);")
        L.append("  int end = asm_get_offset(al);")
        if self.context:
            ctext, cbytes = self.context
            L.append("  /* the preceding line of the same call must come out exactly as when assembled alone, and this line starts right after it */")
            L.append("  static const uint8_t ctx[] = { %s };" % ", ".join("0x%02x" % b for b in cbytes))
            L.append("  if (rc == EXIT_SUCCESS) {")
            L.append("    for (unsigned i = 0; i < sizeof ctx; i++) CHECK(vf_buf[start + i] == ctx[i], \"the preceding line's code is the code it yields when assembled alone\");")
            L.append("  }")
            L.append("  for (unsigned i = 0; i < sizeof ctx; i++) vf_shadow[start + i] = ctx[i];   /* the frame of the second line starts after them */")
            L.append("  start += (int)sizeof ctx;")
        L.append("#ifndef VF_CBMC")
        L.append('  printf("RC %d BYTES", rc); for (int i = start; rc == 0 && i < end && i < BUFN; i++) printf(" %02x", vf_buf[i]); printf("\\n");')
        L.append("#endif")
        if self.expect_fail:
            L.append('  CHECK(rc == EXIT_FAILURE, "the line is rejected");')
            L.append("  vf_frame_check(al, start, start, rc);")
        elif self.accept:
            L.append(self.accept)
        else:
            L.append('  CHECK(rc == EXIT_SUCCESS, "assembling the line succeeds");')
            L.append("  if (rc == EXIT_SUCCESS) {")
            L.append('    CHECK(end > start && end - start <= 15, "offset advanced by the instruction length");')
            L.append('    CHECK(end - start <= 13, "length lemma: no instruction of the subset is longer than 13 bytes (bound used by the API-layer queries)");')
            L.append("    struct xinsn D;")
            L.append("    int n = x86dec_want(vf_buf + start, end - start, &D, %s);" % self.want)
            L.append('    CHECK(n == end - start, "the emitted bytes are exactly one instruction");')
            L.append("    if (n == end - start) {")
            for p in self.post:
                L.append("      " + p)
            L.append("    }")
            L.append("    vf_frame_check(al, start, end, rc);")
            L.append("  }")
        if self.alt_parts is not None:
            L.append("  {")
            L.append("    static uint8_t buf2[BUFN]; static char vf_text2[256];")
            L.append("    for (int i = 0; i < BUFN; i++) buf2[i] = vf_shadow[i];")
            L.append("    assemblyline_t al2 = asm_create_instance(buf2, BUFN);")
            L.append("    ASSUME(al2 != NULL);")
            L.append("    asm_mov_imm(al2, (enum asm_opt)vf_opt_mv); asm_sib_index_base_swap(al2, (enum asm_opt)vf_opt_sw); asm_sib_no_base(al2, (enum asm_opt)vf_opt_nb);")
            L.append("    asm_set_offset(al2, start);")
            L.append("#ifdef VF_CBMC")
            L.append('    strcpy(vf_text2, "%s\\n");' % c_escape(self.extra_lines_before + self.text(self.alt_parts)))
            L.append("#else")
            L.append("    " + self.replay_text_code(self.alt_parts, "vf_text2", "b"))
            L.append('    printf("TEXT2 %s", vf_text2);')
            L.append("#endif")
            L.append("    int rc2 = asm_assemble_str(al2, vf_text2);")
            L.append("    int end2 = asm_get_offset(al2);")
            L.append("#ifndef VF_CBMC")
            L.append('    printf("RC2 %d BYTES2", rc2); for (int i = start; rc2 == 0 && i < end2 && i < BUFN; i++) printf(" %02x", buf2[i]); printf("\\n");')
            L.append("#endif")
            L.append('    CHECK(rc == rc2, "both spellings are accepted or both rejected");')
            L.append("    if (rc == EXIT_SUCCESS && rc2 == EXIT_SUCCESS) {")
            L.append('      CHECK(end == end2, "both spellings give code of the same length");')
            L.append("#ifdef VF_CBMC")
            L.append("      unsigned q = nondet_uint(); __CPROVER_assume(q < BUFN);")
            L.append('      CHECK(vf_buf[q] == buf2[q], "both spellings give identical bytes");')
            L.append("#else")
            L.append('      for (int q = 0; q < BUFN; q++) CHECK(vf_buf[q] == buf2[q], "both spellings give identical bytes");')
            L.append("#endif")
            L.append("    }")
            L.append("  }")
        if self.pair:
            L.append("  {")
            L.append("    static uint8_t buf2[BUFN];")
            L.append("    unsigned long mv2 = IN(24), sw2 = IN(25), nb2 = IN(26);")
            L.append("    ASSUME(mv2 < 3 && sw2 < 2 && nb2 < 2);")
            L.append("    for (int i = 0; i < BUFN; i++) buf2[i] = vf_shadow[i];")
            L.append("    assemblyline_t al2 = asm_create_instance(buf2, BUFN);")
            L.append("    ASSUME(al2 != NULL);")
            L.append("    asm_mov_imm(al2, (enum asm_opt)mv2); asm_sib_index_base_swap(al2, (enum asm_opt)sw2); asm_sib_no_base(al2, (enum asm_opt)nb2);")
            L.append("    asm_set_offset(al2, start);")
            L.append("#ifdef VF_CBMC")
            L.append('    strcpy(vf_text, "%s\\n");' % c_escape(self.extra_lines_before + self.text()))
            L.append("#endif")
            L.append("    int rc2 = asm_assemble_str(al2, vf_text);")
            L.append("    int end2 = asm_get_offset(al2);")
            L.append("#ifndef VF_CBMC")
            L.append('    printf("OPTIONS2 %lu %lu %lu RC2 %d BYTES2", mv2, sw2, nb2, rc2); for (int i = start; rc2 == 0 && i < end2 && i < BUFN; i++) printf(" %02x", buf2[i]); printf("\\n");')
            L.append("#endif")
            L.append('    CHECK(rc == rc2, "same return value under any two option combinations");')
            L.append("    if (rc == EXIT_SUCCESS && rc2 == EXIT_SUCCESS) {")
            L.append('      CHECK(end == end2, "same code length under any two option combinations");')
            L.append("#ifdef VF_CBMC")
            L.append("      unsigned q = nondet_uint(); __CPROVER_assume(q < BUFN);")
            L.append('      CHECK(vf_buf[q] == buf2[q], "identical bytes under any two option combinations");')
            L.append("#else")
            L.append('      for (int q = 0; q < BUFN; q++) CHECK(vf_buf[q] == buf2[q], "identical bytes under any two option combinations");')
            L.append("#endif")
            L.append("    }")
            L.append("  }")
        L.append("  WITNESS();")
        L.append("}")
        return "\n".join(L) + "\n"


def c_escape(s):
    return s.replace("\\", "\\\\").replace('"', '\\"').replace("\n", "\\n").replace("\t", "\\t")


# ---------------------------------------------------------------------------
# memory shapes

class MemShape:
    """A documented memory syntax.  kind:
       b, b+d, b-d, b+i, b+i*s, b+s*i, b+i*s+d, b+i*s-d, b+s*i+d, b+s*i-d,
       s*i, s*i+d, s*i-d, d, -d"""

    def __init__(self, kind, scale=1, dstyle="hex"):
        self.kind = kind
        self.scale = scale
        self.dstyle = dstyle

    def label(self):
        return "%s_s%d_%s" % (self.kind.replace("*", "x").replace("+", "p").replace("-", "m"), self.scale, self.dstyle)

    def has_base(self):
        return self.kind.startswith("b")

    def has_index(self):
        return "i" in self.kind

    def has_disp(self):
        return "d" in self.kind


ALL_SHAPE_KINDS = ["b", "b+d", "b-d", "b+i", "b+i*s", "b+s*i", "b+i*s+d", "b+i*s-d", "b+s*i+d", "b+s*i-d",
                   "s*i", "s*i+d", "s*i-d", "d", "-d"]


def add_mem(sk, shape, kw, var="M", spaces=False):
    """Append a memory operand's text to sk and bind the abstract operand
    `struct amem M`.  Returns C var name."""
    kind = shape.kind
    sc = shape.scale
    sk.decl.append("struct amem %s; memset(&%s, 0, sizeof %s); %s.scale = 1; %s.asize = 64;" % (var, var, var, var, var))
    b = i = None
    if shape.has_base():
        b = sk.reg("CM(RC_GPR64) | CM(RC_GPR32)")
        sk.decl.append("%s.has_base = 1; %s.base = R%d; %s.asize = vf_regsize(R%d);" % (var, var, b, var, b))
    if shape.has_index():
        i = sk.reg("CM(RC_GPR64) | CM(RC_GPR32)")
        sk.decl.append("%s.has_index = 1; %s.index = R%d; %s.scale = %d; %s.asize = vf_regsize(R%d);" % (var, var, i, var, sc, var, i))
        if b is not None:
            sk.decl.append("ASSUME(R%d.rc == R%d.rc);" % (b, i))
    d = None
    neg = False
    if shape.has_disp():
        neg = "-d" in kind
        d = sk.num()
        lim = "0x80000000ul" if neg else "0x7ffffffful"
        sk.decl.append("ASSUME(N%d <= %s);" % (d, lim))
        sk.decl.append("%s.has_disp = 1; %s.disp = %s(int64_t)N%d;" % (var, var, "-" if neg else "", d))
    if kw:
        sk.t(kw + " ")
    sk.t("[")
    # body
    if kind in ("d", "-d"):
        sk.tnum(d, shape.dstyle, neg)
    else:
        first = True
        if b is not None:
            sk.treg(b)
            first = False
        if i is not None:
            if not first:
                sk.t("+")
            explicit_scale = "*" in kind
            if explicit_scale:
                if "s*i" in kind:
                    sk.t("%d*" % sc).treg(i)
                else:
                    sk.treg(i).t("*%d" % sc)
            else:
                sk.treg(i)
        if d is not None:
            sk.t("-" if neg else "+")
            sk.tnum(d, shape.dstyle, False)
    sk.t("]")
    sk.meta.setdefault("mem", []).append({"shape": kind, "scale": sc, "dstyle": shape.dstyle, "kw": kw})
    sk.high_rex.append("M:" + var)
    return var, b, i
