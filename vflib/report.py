"""Turn query results into the exit status, VIOLATION / KNOWN-FINDING lines,
replay files and the evidence file."""
import json
import os
import sys
import time

from . import core


def tier_from_env(argv_tier=None):
    t = argv_tier or os.environ.get("VERIF_TIER") or "quick"
    return "thorough" if t.startswith("t") else "quick"


class Report:
    def __init__(self, pid, tier, level):
        self.pid = pid
        self.tier = tier
        self.level = level
        self.t0 = time.time()
        self.results = []
        self.known_lines = []
        self.notes = []
        self.functions = set()
        self.extra = {}

    def add(self, results):
        self.results += results

    def known(self, entry, confirmed, res):
        if confirmed:
            what = entry["what"]
            ex = ""
            if res and res.get("replay"):
                ex = " [e.g. %s -> %s]" % (res["replay"].get("text", "").strip(), res["replay"].get("bytes") or ("rc=%s" % res["replay"].get("rc")))
            self.known_lines.append("KNOWN-FINDING: property=%s %s: %s%s" % (self.pid, entry["id"], what, ex))
        else:
            self.notes.append("known finding %s did not reproduce on this tree (status %s); entry suppresses nothing else" %
                              (entry["id"], res.get("status") if res else "no-skeleton"))

    def finish(self, coverage_extra, assumptions, bounds, rule, functions):
        wall = time.time() - self.t0
        viol = [r for r in self.results if r["status"] == "violated"]
        inc = [r for r in self.results if r["status"] == "inconclusive"]
        mach = [r for r in self.results if r["status"] == "machinery"]
        held = [r for r in self.results if r["status"] == "held"]
        for l in self.known_lines:
            core.log(l)
        for n in self.notes:
            core.log("NOTE " + n)
        n = 0
        for r in viol:
            n += 1
            doc = {"property": self.pid, "query": r["name"], "skeleton_text": r.get("text"),
                   "failed_checks": r.get("failed"), "inputs": r.get("inputs"), "replay": r.get("replay"),
                   "how_to_replay": "./vf replay %s" % ("replays/%s-%d.json" % (self.pid, n))}
            path = core.write_replay(self.pid, n, doc)
            rp = r.get("replay") or {}
            core.log("VIOLATION property=%s replay=%s" % (self.pid, path))
            core.log("  query=%s input=%r options=%s -> rc=%s bytes=[%s] failed=%s" % (
                r["name"], (rp.get("text") or "").strip(), rp.get("options"), rp.get("rc"), rp.get("bytes"),
                "; ".join(d for _, d in (r.get("failed") or [])[:3])))
        for r in inc:
            core.log("INCONCLUSIVE property=%s query=%s %s" % (self.pid, r["name"], r.get("detail", "")[:300]))
        for r in mach:
            core.log("MACHINERY-ERROR property=%s query=%s %s" % (self.pid, r["name"], r.get("detail", "")[:600]))
            if r.get("inputs"):
                core.log("  inputs: " + " ".join("%d=%d" % (k, v) for k, v in sorted(r["inputs"].items())))
        total_solver = sum(r.get("wall", 0.0) for r in self.results)
        samples = []
        for r in (viol[:3] + held[:6]):
            samples.append({"query": r["name"], "text": r.get("text"), "status": r["status"],
                            "properties_checked": r.get("nprops"), "cbmc_wall_s": round(r.get("wall", 0.0), 2)})
        cov = {
            "evaluations": len(self.results),
            "distinct_nontrivial": len({r["name"] for r in held + viol}),
            "rule": rule,
            "samples": samples or [{"note": "no query completed"}],
            "states": max(1, len(self.results)),
            "transitions": max(1, sum(r.get("nprops", 0) or 0 for r in self.results)),
            "traces_validated_against_impl": sum(1 for r in self.results if r.get("replay")),
            "queries_discharged": len(held),
            "queries_violated": len(viol),
            "queries_inconclusive": len(inc),
            "queries_machinery_error": len(mach),
            "solver": "cbmc 6.11.0 --sat-solver cadical, --unwinding-assertions",
            "solver_wall_s_sum": round(total_solver, 1),
            "slowest_queries": [{"query": r["name"], "wall_s": round(r.get("wall", 0.0), 1)}
                                for r in sorted(self.results, key=lambda r: -r.get("wall", 0.0))[:8]],
            "bounds": bounds,
            "functions_encoded": sorted(functions),
            "known_findings_reported": [l for l in self.known_lines],
            "repo_fingerprint": core.repo_fingerprint(),
            "exhaustive": False,
        }
        cov.update(coverage_extra or {})
        core.write_evidence(self.pid, self.tier, self.level, cov, assumptions, wall, len(viol))
        core.log("SUMMARY property=%s tier=%s queries=%d held=%d violated=%d inconclusive=%d machinery=%d wall=%.0fs" % (
            self.pid, self.tier, len(self.results), len(held), len(viol), len(inc), len(mach), wall))
        core.log("TIMING slowest: " + ", ".join("%s %.0fs" % (r["name"], r.get("wall", 0.0))
                                                 for r in sorted(self.results, key=lambda r: -r.get("wall", 0.0))[:6]))
        if viol:
            return 1
        if mach:
            return 3
        if inc:
            return 2
        return 0
