"""GLUE engine runner: harnesses in /verif/c/glue_*.c over the real API layer."""
import os
import re
import time

from . import core

STUBS = [("__CPROVER_file_local_parser_c_str_to_instr", "stub_str_to_instr"), ("assemble_asm", "stub_assemble_asm")]

GLUE_ASSUMPTIONS = [
    "per-line abstraction: str_to_instr -> one abstract line per 'x\\n' (skip / failing / instruction of symbolic length 1..LMAX with symbolic signature bytes); assemble_asm -> writes the signature at dest and returns its length, asserting the destination range",
    "justified by ENC verdicts: a line's bytes depend only on text and options (frame + non-interference queries), and assemble_asm writes only dest[0..n) with n <= 15",
    "libc models for CBMC; allocation failure excluded (--no-malloc-may-fail) except in C17",
    "counterexamples are replayed natively with real instruction lines of the same lengths through the public API (no stub)",
]


class GlueEngine:
    def __init__(self, pid, tier, wd=None, stubs=True, tools=False):
        self.pid = pid
        self.tier = tier
        self.wd = wd or core.workdir("vf-glue")
        self.tb = core.table_bounds(self.wd)
        self.lib = core.build_lib(self.wd, "glue")
        self.stubs = stubs
        self.timeout = 600 if tier == "quick" else 3600
        self.known = [k for k in core.load_known() if k.get("status") == "open" and k.get("engine") == "glue"]

    def unwindset(self, extra=None):
        n = self.tb["instr_rows"] + 8
        m = self.tb["opd_rows"] + 4
        u = {
            # (every loop of the index build gets the larger table's bound, also loops a changed tree may add)
            **{"__CPROVER_file_local_assemblyline_c_asm_build_index_tables.%d" % k: max(n, m) for k in range(6)},
            # inner copy loop (<= 11 bytes per NOP) / outer loop over NOPs of one padding run
            "nop_padding.0": 13, "nop_padding.1": 4,
            "glue_fill.0": 600,
        }
        u.update(extra or {})
        return u

    def run(self, name, cfile, defs=(), unwind=8, unwindset=None, checks="default", common=("glue.c", "vf_main.c", "libc_models.c"),
            replace=None, malloc_may_fail=False, exclude=None, only=None, extra_flags=(), timeout=None, replay=True,
            native_extra=(), replay_fn=None, ignore_props=(), remove_bodies=(), hunt=None, isr=None):
        res = {"name": name, "text": cfile + " " + " ".join(defs), "status": None, "wall": 0.0, "failed": [], "detail": "",
               "inputs": None, "replay": None}
        defs = list(defs)
        if exclude:
            defs.append("-DVF_EXCLUDE=(%s)" % exclude)
        if only:
            defs.append("-DVF_ONLY=(%s)" % only)
        src = open(os.path.join(core.CDIR, cfile)).read()
        tag = re.sub(r"[^A-Za-z0-9_]", "_", name)
        try:
            commons = [core.build_common(self.wd, tag + "_common", list(common), defs=defs)]
            rc = (STUBS if self.stubs else []) if replace is None else replace
            gb = core.compile_harness(self.wd, tag, src, self.lib + commons, defs=defs, replace_calls=rc, remove_bodies=remove_bodies, isr=isr)
        except core.MachineryError as e:
            res["status"] = "machinery"
            res["detail"] = str(e)[-1500:]
            return res
        rin = core.replay_doc(name)
        if rin is not None:
            rp = replay_fn(self, tag, cfile, defs, rin, res) if replay_fn is not None else self.replay(tag, cfile, defs, rin, common, native_extra)
            res.update(inputs=rin, replay=rp, status="violated" if rp["reproduced"] else "held",
                       failed=[("replay", "VF recorded counterexample replayed natively")])
            return res
        uw = self.unwindset(unwindset)
        # loops of the harness itself (concrete trip counts over buffers): bound from the harness's own sizes
        big = 8
        for d in defs:
            m = re.match(r"-D(GBUF|BIG|OS_MAXOBJ|OS_MAXFILE|NMAX|BMAX)=(\d+)", d)
            if m:
                big = max(big, int(m.group(2)) + 8)
        big = max(big, 72, getattr(self, 'min_harness_bound', 0))
        harness_loops = set()
        for lp in core.show_loops(gb):
            fn = lp.rsplit(".", 1)[0]
            names = ("harness", "glue_fill", "split_text", "check_layout", "expected", "vf_copy", "os_fill", "copy_shadow", "frame", "rec_check", "any_line", "stub_line_to_instr")
            if any(fn == x or fn.endswith("_c_" + x) for x in names):
                harness_loops.add(lp)
                if lp not in uw:
                    uw[lp] = big
        t0 = time.time()
        flags = list(extra_flags)
        if malloc_may_fail:
            flags += ["--malloc-may-fail", "--malloc-fail-null"]
        if hunt:
            # bug-hunting pre-pass: shallow unwinding, no unwinding assertions.  Only a violation it finds is used
            # (and only if it replays natively); otherwise the full query below decides.  It exists so that a
            # broken tree is reported in seconds where the full unwinding of the broken code would take very long.
            hu = dict(uw)
            for k in hu:
                if hu[k] > hunt["cap"] and k not in harness_loops and not any(x in k for x in hunt.get("keep", ())):
                    hu[k] = hunt["cap"]
            hit = core.run_cbmc_hunt(gb, min(unwind or hunt["cap"], hunt["cap"]), hu, checks=checks, flags=flags,
                                     timeout=hunt.get("timeout", 120), malloc_may_fail=malloc_may_fail)
            if hit is not None and not hit[1].startswith("WITNESS") and \
                    not any(re.search(ig, (hit[0] or "") + " " + hit[1]) for ig in ignore_props):
                rin = hit[2]
                rp = replay_fn(self, tag, cfile, defs, rin, res) if replay_fn is not None else self.replay(tag, cfile, defs, rin, common, native_extra)
                if rp["reproduced"]:
                    res.update(inputs=rin, replay=rp, status="violated", failed=[(hit[0], hit[1])], wall=time.time() - t0,
                               detail="found by the bug-hunting pre-pass (path-wise, shallow unwinding), replayed natively")
                    return res
        v = core.run_cbmc(gb, unwind=unwind, unwindset=uw, timeout=timeout or self.timeout, checks=checks,
                          malloc_may_fail=malloc_may_fail, flags=flags)
        res["wall"] = time.time() - t0
        res["cmd"] = v.cmd
        if v.status != "ok":
            res["status"] = "inconclusive"
            res["detail"] = "%s %s" % (v.status, v.messages[-600:])
            return res
        res["nprops"] = len(v.props)
        unwind_fail = [p for p in v.failed if ".unwind." in p]
        if unwind_fail:
            res["status"] = "inconclusive"
            res["detail"] = "unwinding assertion failed: %s" % unwind_fail[:4]
            return res
        wit = [p for p in v.props if v.props[p][1].startswith("WITNESS")]
        bad = [p for p in v.failed if p not in wit and not any(re.search(ig, p + " " + v.props[p][1]) for ig in ignore_props)]
        if not wit or any(v.props[p][0] != "FAILURE" for p in wit):
            res["status"] = "vacuous" if only is not None else "machinery"
            res["detail"] = "vacuity: a witness is not reachable"
            return res
        if not bad:
            res["status"] = "held"
            return res
        # the harness's own checks first, then CBMC's built-in ones
        bad.sort(key=lambda p: (0 if v.props[p][1].startswith("VF ") else 1))
        res["failed"] = [(p, v.props[p][1]) for p in bad]
        last = None
        for p0 in bad[:4]:
            v2 = core.run_cbmc(gb, unwind=unwind, unwindset=uw, timeout=timeout or self.timeout, checks=checks,
                               malloc_may_fail=malloc_may_fail, flags=flags, trace=True, props=[p0])
            res["wall"] += v2.wall
            if v2.status != "ok" or p0 not in v2.traces:
                last = ("inconclusive", "no trace for %s: %s" % (p0, v2.status))
                continue
            res["inputs"] = v2.traces[p0]
            if not replay:
                res["status"] = "violated-unreplayed"
                return res
            if replay_fn is not None:
                rp = replay_fn(self, tag, cfile, defs, res["inputs"], res)
            else:
                rp = self.replay(tag, cfile, defs, res["inputs"], common, native_extra)
            res["replay"] = rp
            if rp["reproduced"]:
                res["status"] = "violated"
                res["failed"] = [(p0, v.props[p0][1])] + [x for x in res["failed"] if x[0] != p0]
                return res
            last = ("machinery", "counterexample did not reproduce natively (%s): %s" % (v.props[p0][1], rp["output"][-500:]))
        res["status"], res["detail"] = last
        return res

    def replay(self, tag, cfile, defs, inputs, common, native_extra=()):
        srcs = [os.path.join(core.CDIR, cfile)] + [os.path.join(core.CDIR, c) for c in common if c != "libc_models.c"] + \
            core.repo_sources() + list(native_extra)
        try:
            exe = core.build_native(self.wd, tag + ".replay", srcs, defs=defs, sanitize=True)
        except core.MachineryError as e:
            return {"reproduced": False, "output": "native build failed: " + str(e)[-800:], "args": []}
        args = ["%d=%d" % (k, val) for k, val in sorted(inputs.items())]
        env_rc, out, err, _, to = core.run([exe] + args, timeout=30, limit=False)
        san = "ERROR: AddressSanitizer" in err or "runtime error:" in err
        if to:
            err = (err or "") + "\nREPLAY did not terminate within 30 s (non-termination)"
        return {"reproduced": env_rc == 1 or san or bool(to), "exit": env_rc, "output": (out[-1500:] + "\n" + err[-1200:]), "args": args,
                "text": " ".join(args), "bytes": "", "rc": env_rc, "options": None, "sanitizer": san}


class OsEngine(GlueEngine):
    """GLUE engine with the OS model: the library's calls to malloc/free/mmap/
    mremap/munmap/open/fstat/close/fopen/fwrite/fclose are redirected (by a
    wrapper translation unit, no change to /repo) to /verif/c/vf_os.c."""

    def __init__(self, pid, tier, mem_buffer=None, stubs=False):
        self.pid = pid
        self.tier = tier
        self.wd = core.workdir("vf-os")
        self.tb = core.table_bounds(self.wd)
        pre = ['#define VF_OS_REDIRECT 1', '#include "vf_os.h"']
        if mem_buffer is not None:
            pre += ['#include "common.h"', '#undef MEM_BUFFER', '#define MEM_BUFFER %d' % mem_buffer]
        self.file_defs = {"assemblyline.c": list(pre), "parser.c": list(pre)}
        self.lib = core.build_lib(self.wd, "os", file_defs=self.file_defs)
        self.stubs = stubs
        self.timeout = 900 if tier == "quick" else 3600
        self.known = [k for k in core.load_known() if k.get("status") == "open" and k.get("engine") == "glue"]

    def replay(self, tag, cfile, defs, inputs, common, native_extra=()):
        srcs = [os.path.join(core.CDIR, cfile)] + [os.path.join(core.CDIR, c) for c in common if c != "libc_models.c"] + \
            core.wrapped_sources(self.wd, "osn", core.LIB_SOURCES, self.file_defs)
        try:
            exe = core.build_native(self.wd, tag + ".replay", srcs, defs=defs, sanitize=False)
        except core.MachineryError as e:
            return {"reproduced": False, "output": "native build failed: " + str(e)[-800:], "args": []}
        args = ["%d=%d" % (k, val) for k, val in sorted(inputs.items())]
        rc, out, err, _, to = core.run([exe] + args, timeout=30, limit=False)
        crashed = rc < 0 or rc >= 128
        return {"reproduced": rc == 1 or crashed, "exit": rc, "output": (out[-1500:] + "\n" + err[-800:]), "args": args,
                "text": " ".join(args), "bytes": "", "rc": rc, "options": None, "crashed": crashed}
