"""ENC engine runner: skeleton harnesses through the whole real pipeline
(asm_create_instance, option setters, asm_assemble_str -> assemble_all ->
str_to_instr -> tokenizer -> lookup -> encoder -> emitter), str_to_reg and
strtoul replaced by contract stubs; verdicts by CBMC/CaDiCaL; counterexamples
replayed natively with the real functions and the real register names."""
import fnmatch
import os
import re
import time

from . import core

ENC_ASSUMPTIONS = [
    "text layer: the line text of each query is concrete (mnemonic, punctuation, keywords, placeholder register names and literals); "
    "other spellings of the same skeleton are covered by the TOK lemmas, not by this query",
    "stub str_to_reg: placeholder k -> symbolic asm_reg value built from an abstract register via an independent table of enums.h's representation; other names -> the real str_to_reg",
    "stub strtoul: placeholder literal k -> symbolic magnitude NUM[k] within the range of its spelling, sign handled as libc does, asserts the base passed matches the spelling; other literals -> model strtoul",
    "libc models written for CBMC: strstr, strtok_r, strtoul (differential-tested against glibc at setup)",
    "oracle: /verif/c/x86dec.c reference decoder (validated against nasm and objdump by tools/validate_x86dec.py; never reads /repo)",
    "start offset fixed per query (VF_START); arbitrary offsets are covered by the GLUE queries with the per-line length lemma",
    "CBMC run with --no-standard-checks: memory-safety of these paths is C09's claim",
    "allocation failure out of scope (--no-malloc-may-fail); that is C17",
]


def unwindset(tb):
    n = tb["instr_rows"] + 8
    m = tb["opd_rows"] + 4
    return {
        # (every loop of the index build gets the larger table's bound, also loops a changed tree may add)
        **{"__CPROVER_file_local_assemblyline_c_asm_build_index_tables.%d" % k: max(n, m) for k in range(6)},
        "str_to_instr_key.0": n, "str_to_instr_key.1": n,
        "get_opd_format.0": m,
        "find_reg.0": tb["reg_rows"] + 2,
        "strncpy.0": tb["FILTERED_STR_LEN"] + 2,
        "__CPROVER_file_local_parser_c_filter_assembly_str_fsa.0": tb["FILTERED_STR_LEN"] + 4,
        "__CPROVER_file_local_parser_c_str_to_instr.0": tb["FILTERED_STR_LEN"] + 4,
        "x86dec_want.1": 260,
        "vf_instance.0": 80,
        "strstr.0": 104, "strstr.1": 104, "strtok_r.0": 104, "strtok_r.1": 104, "__CPROVER_file_local_libc_models_c_vf_is_delim.0": 4,
        "strlen.0": 104, "strcpy.0": 130, "strcmp.0": 20, "strchr.0": 104,
        "__CPROVER_file_local_reg_parser_c_strlen_int.0": 104,
        "find_add_mem.0": 104, "find_mem_const.0": 104, "get_reg_str.0": 104, "get_index_reg.0": 104,
        "__CPROVER_file_local_assembler_c_assemble_const.0": 9,
        "__CPROVER_file_local_assembler_c_assemble_imm.0": 9,
        "__CPROVER_file_local_assembler_c_assemble_mem_const.0": 5,
        "__CPROVER_file_local_assembler_c_assemble_instr.0": 17,
        "nop_padding.0": 13, "nop_padding.1": 4,
        "assemble_all.0": 6,
        "harness.0": 80, "harness.1": 80, "harness.2": 80, "harness.3": 80, "harness.4": 80, "harness.5": 80,
    }


class EncEngine:
    def __init__(self, pid, tier, wd=None):
        self.pid = pid
        self.tier = tier
        self.wd = wd or core.workdir("vf-enc")
        self.tb = core.table_bounds(self.wd)
        self.lib = core.build_lib(self.wd, "enc", file_defs={"reg_parser.c": ["-Dstr_to_reg=str_to_reg_real"]})
        self.common = [core.build_common(self.wd, "enccommon", ["enc.c", "x86dec.c", "vf_main.c", "libc_models.c"])]
        self.uw = unwindset(self.tb)
        self.known = [k for k in core.load_known() if k.get("status") == "open" and k.get("engine", "enc") == "enc"]
        self.timeout = 300 if tier == "quick" else 1800
        self._native_cache = {}

    # ---- one query ------------------------------------------------------
    def _defs(self, exclude=None, only=None):
        d = []
        if exclude:
            d.append("-DVF_EXCLUDE=(%s)" % exclude)
        if only:
            d.append("-DVF_ONLY=(%s)" % only)
        return d

    def matching_known(self, sk):
        out = []
        # skeletons derived from another property's family keep that family's open findings
        names = {sk.name}
        base = re.sub(r"^(c11\.pair\.|c16\.base\.|c06\.ctx\d+\.)", "", sk.name)
        base = re.sub(r"\.vs_\w+$", "", base)
        names.add(base)
        if sk.name.startswith("c04.mem."):
            names.add("c02." + sk.name[8:])
        for k in self.known:
            if any(fnmatch.fnmatch(nm, pat) for pat in k["family"] for nm in names):
                if k.get("requires") and not all(r in sk.meta.get("vars", sk_vars(sk)) for r in k["requires"]):
                    continue
                out.append(k)
        return out

    def run_one(self, sk, exclude=None, only=None, tag=""):
        name = re.sub(r"[^A-Za-z0-9_]", "_", sk.name) + tag
        src = sk.emit()
        res = {"name": sk.name, "text": sk.text(), "status": None, "wall": 0.0, "failed": [], "detail": "",
               "family": sk.family, "vars": 0, "inputs": None, "replay": None}
        try:
            gb = core.compile_harness(self.wd, name, src, self.lib + self.common, defs=self._defs(exclude, only))
        except core.MachineryError as e:
            res["status"] = "machinery"
            res["detail"] = str(e)[-1500:]
            return res
        rin = core.replay_doc(sk.name)
        if rin is not None:
            rp = self.replay(sk, src, name, rin, exclude, only)
            res.update(inputs=rin, replay=rp, status="violated" if rp["reproduced"] else "held",
                       failed=[("replay", "VF recorded counterexample replayed natively")])
            return res
        t0 = time.time()
        v = core.run_cbmc(gb, unwind=24, unwindset=self.uw, timeout=self.timeout, checks="none")
        res["wall"] = time.time() - t0
        if v.status != "ok":
            res["status"] = "inconclusive"
            res["detail"] = "%s %s" % (v.status, v.messages[-800:])
            return res
        res["nprops"] = len(v.props)
        unwind_fail = [p for p in v.failed if "unwind" in p]
        if unwind_fail:
            res["status"] = "inconclusive"
            res["detail"] = "unwinding assertion failed: %s" % unwind_fail[:3]
            return res
        wit = [p for p in v.props if v.props[p][1].startswith("WITNESS")]
        user_failed = [p for p in v.failed if v.props[p][1].startswith("VF ")]
        other_failed = [p for p in v.failed if p not in user_failed and p not in wit]
        if not wit or any(v.props[p][0] != "FAILURE" for p in wit):
            if only is not None:
                res["status"] = "vacuous"
                return res
            if exclude is not None:
                # the whole skeleton lies inside the region of an open known finding (which is re-confirmed on its own)
                res["status"] = "held"
                res["detail"] = "entirely inside the excluded region of a known finding: nothing left to decide here"
                res["excluded_entirely"] = True
                return res
            res["status"] = "machinery"
            res["detail"] = "vacuity: witness not reachable (assumptions unsatisfiable or bound too small)"
            return res
        if other_failed:
            res["side"] = [(p, v.props[p][1]) for p in other_failed[:5]]
        if not user_failed:
            res["status"] = "held"
            return res
        res["failed"] = [(p, v.props[p][1]) for p in user_failed]
        # counterexample for the first failing check
        p0 = user_failed[0]
        v2 = core.run_cbmc(gb, unwind=24, unwindset=self.uw, timeout=self.timeout, checks="none", trace=True,
                           props=[p0])
        res["wall"] += v2.wall
        if v2.status != "ok" or p0 not in v2.traces:
            res["status"] = "inconclusive"
            res["detail"] = "no trace for %s: %s %s" % (p0, v2.status, v2.messages[-400:])
            return res
        res["inputs"] = v2.traces[p0]
        rp = self.replay(sk, src, name, res["inputs"], exclude, only)
        res["replay"] = rp
        res["status"] = "violated" if rp["reproduced"] else "machinery"
        if not rp["reproduced"]:
            res["detail"] = "counterexample did not reproduce natively: %s" % rp["output"][-600:]
        return res

    # ---- memory safety of a skeleton (C09) --------------------------------
    def run_safety(self, sk):
        """the same harness with every CBMC memory-safety/overflow check on;
        only built-in check failures count here (the harness's own encoding
        assertions are C01-C05's business)"""
        name = re.sub(r"[^A-Za-z0-9_]", "_", sk.name) + "_safe"
        src = sk.emit()
        res = {"name": "c09.enc." + sk.name, "text": sk.text(), "status": None, "wall": 0.0, "failed": [], "detail": "",
               "family": sk.family, "inputs": None, "replay": None}
        try:
            gb = core.compile_harness(self.wd, name, src, self.lib + self.common)
        except core.MachineryError as e:
            res["status"] = "machinery"; res["detail"] = str(e)[-800:]
            return res
        v = core.run_cbmc(gb, unwind=24, unwindset=self.uw, timeout=self.timeout, checks="full")
        res["wall"] = v.wall
        if v.status != "ok":
            res["status"] = "inconclusive"; res["detail"] = "%s %s" % (v.status, v.messages[-400:])
            return res
        res["nprops"] = len(v.props)
        wit = [p for p in v.props if v.props[p][1].startswith("WITNESS")]
        if not wit or any(v.props[p][0] != "FAILURE" for p in wit):
            res["status"] = "machinery"; res["detail"] = "vacuity: witness not reachable"
            return res
        bad = [p for p in v.failed if p not in wit and not v.props[p][1].startswith("VF ")]
        # an unwinding assertion that fails here means a loop of the library ran longer than its bound: termination is part of C09
        if not bad:
            res["status"] = "held"
            return res
        res["failed"] = [(p, v.props[p][1]) for p in bad]
        v2 = core.run_cbmc(gb, unwind=24, unwindset=self.uw, timeout=self.timeout, checks="full", trace=True, props=[bad[0]])
        if v2.status != "ok" or bad[0] not in v2.traces:
            res["status"] = "inconclusive"; res["detail"] = "no trace"
            return res
        res["inputs"] = v2.traces[bad[0]]
        c = os.path.join(self.wd, name + ".c")
        srcs = [c] + [os.path.join(core.CDIR, f) for f in ("enc.c", "x86dec.c", "vf_main.c")] + core.repo_sources()
        try:
            exe = core.build_native(self.wd, name + ".san", srcs, sanitize=True)
            args = ["%d=%d" % (k, val) for k, val in sorted(res["inputs"].items())]
            rc, out, err, _, to = core.run([exe] + args, timeout=20, limit=False)
            san = "AddressSanitizer" in err or "runtime error" in err
            m = re.search(r"^TEXT (.*)$", out, re.M)
            res["replay"] = {"reproduced": san, "exit": rc, "output": out[-600:] + err[-900:], "args": args, "text": m.group(1) if m else "",
                             "bytes": "", "rc": rc, "options": None}
            res["status"] = "violated" if san else "machinery"
            if not san:
                res["detail"] = "built-in check %s failed in CBMC but no sanitizer report natively" % (res["failed"][0],)
        except core.MachineryError as e:
            res["status"] = "machinery"; res["detail"] = str(e)[-600:]
        return res

    # ---- replay ----------------------------------------------------------
    def replay(self, sk, src, name, inputs, exclude=None, only=None):
        c = os.path.join(self.wd, name + ".c")
        srcs = [c] + [os.path.join(core.CDIR, f) for f in ("enc.c", "x86dec.c", "vf_main.c")] + core.repo_sources()
        try:
            exe = core.build_native(self.wd, name + ".replay", srcs, defs=self._defs(exclude, only))
        except core.MachineryError as e:
            return {"reproduced": False, "output": "native build failed: " + str(e)[-600:], "args": []}
        args = ["%d=%d" % (k, val) for k, val in sorted(inputs.items())]
        rc, out, err, _, to = core.run([exe] + args, timeout=20, limit=False)
        text = ""
        m = re.search(r"^TEXT (.*)$", out, re.M)
        if m:
            text = m.group(1)
        m2 = re.search(r"^RC (\d+) BYTES(.*)$", out, re.M)
        return {"reproduced": rc == 1, "exit": rc, "output": out[-1200:] + err[-300:], "args": args, "text": text,
                "bytes": m2.group(2).strip() if m2 else "", "rc": int(m2.group(1)) if m2 else None,
                "options": {"mov_imm": inputs.get(0), "swap": inputs.get(1), "no_base": inputs.get(2)}}

    # ---- a whole family --------------------------------------------------
    def run_family(self, skels):
        """returns (results, known_hits)"""
        def job(sk):
            ks = self.matching_known(sk)
            excl = " || ".join("(%s)" % k["when"] for k in ks) if ks else None
            r = self.run_one(sk, exclude=excl)
            r["known"] = [k["id"] for k in ks]
            return r
        return core.pmap(job, skels)

    def confirm_known(self, skels):
        """for every open known finding, show it is still there: the first
        matching skeleton restricted to the finding's region must fail and
        replay.  Returns list of (entry, confirmed, result)."""
        out = []
        jobs = []
        for k in self.known:
            if k["property"] != self.pid:
                continue
            cands = [s for s in skels if k in self.matching_known(s)]
            if not cands:
                continue
            pref = [s for s in cands if s.name == k.get("witness_skeleton")] or cands
            jobs.append((k, pref[0]))

        def job(j):
            k, sk = j
            r = self.run_one(sk, only=k["when"], tag="_known_" + re.sub(r"[^A-Za-z0-9]", "_", k["id"]))
            return (k, r["status"] == "violated", r)
        return core.pmap(job, jobs)


def sk_vars(sk):
    v = set()
    for k in range(sk.nreg):
        v.add("R%d" % k)
    for k in range(sk.nnum):
        v.add("N%d" % k)
    for m in range(len(sk.meta.get("mem", []))):
        v.add("M")
    return v
