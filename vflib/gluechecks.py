"""Shared driver for the GLUE-engine checks (C06, C07, C13, C14, C15)."""
from . import core, glue, report

UW = {"assemble_all.0": 5, "__CPROVER_file_local_parser_c_assemble_with_chunk_fitting.0": 4,
      "__CPROVER_file_local_glue_c06_c_split_text.0": 300}

FUNCS = ["asm_create_instance", "asm_destroy_instance", "asm_set_offset", "asm_get_offset", "asm_set_chunk_size",
         "asm_assemble_str", "asm_assemble_string_counting_chunks", "check_buffer_len", "assemble_all", "assemble",
         "assemble_counting_chunks", "assemble_with_chunk_fitting", "check_len_or_resize", "nop_padding",
         "asm_mov_imm", "asm_sib_index_base_swap", "asm_sib_no_base", "asm_set_all"]


def run_queries(pid, tier, queries, symbolic, bounds, rule, extra_assumptions=(), only=None):
    """queries: list of dict(name, cfile, defs, unwindset, timeout)"""
    rep = report.Report(pid, tier, "model_checking")
    eng = glue.GlueEngine(pid, tier)
    ks = [x for x in eng.known if x["property"] == pid]

    def job(q):
        applicable = [x for x in ks if any(__import__("fnmatch").fnmatch(q["name"], pat) for pat in x["family"])]
        excl = " || ".join("(%s)" % x["when"] for x in applicable) or None
        uw = dict(UW)
        uw.update(q.get("unwindset", {}))
        return eng.run(q["name"], q["cfile"], defs=q["defs"], unwind=q.get("unwind", 20), unwindset=uw, exclude=excl,
                       timeout=q.get("timeout"), checks=q.get("checks", "default"))
    if only:
        import fnmatch
        queries = [q for q in queries if fnmatch.fnmatch(q["name"], only)]
    rep.add(core.pmap(job, queries))
    # re-confirm open findings inside their region
    for x in ks:
        import fnmatch
        cands = [q for q in queries if any(fnmatch.fnmatch(q["name"], pat) for pat in x["family"])]
        if not cands:
            continue
        q = cands[0]
        uw = dict(UW)
        uw.update(q.get("unwindset", {}))
        r = eng.run(q["name"] + ".known." + x["id"], q["cfile"], defs=q["defs"], unwind=q.get("unwind", 20), unwindset=uw,
                    only=x["when"], timeout=q.get("timeout"))
        rep.known(x, r["status"] == "violated", r)
    return rep.finish({"symbolic_per_query": symbolic, "queries": [q["name"] + ": " + " ".join(q["defs"]) for q in queries]},
                      glue.GLUE_ASSUMPTIONS + list(extra_assumptions), bounds, rule, FUNCS)
