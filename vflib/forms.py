"""What "supported" means: the documented instruction forms (frozen from the
documentation and a hand review of the pinned instructions.c), with the
operation each mnemonic denotes in the reference decoder.  Operand-size rules
are the ISA's (Intel SDM), not the library's."""

CC = {  # condition-code mnemonic suffix -> tttn
    "o": 0, "no": 1, "b": 2, "c": 2, "nae": 2, "ae": 3, "nb": 3, "nc": 3, "e": 4, "z": 4, "ne": 5, "nz": 5,
    "be": 6, "na": 6, "a": 7, "nbe": 7, "s": 8, "ns": 9, "p": 10, "pe": 10, "np": 11, "po": 11,
    "l": 12, "nge": 12, "ge": 13, "nl": 13, "le": 14, "ng": 14, "g": 15, "nle": 15,
}

# mnemonics the library documents (instructions.c row names)
CMOV_SUFFIXES = ["a", "ae", "b", "be", "c", "e", "g", "ge", "l", "le", "na", "nae", "nb", "nbe", "nc", "ne", "ng",
                 "nge", "nl", "nle", "no", "np", "ns", "nz", "o", "p", "pe", "po", "s", "z"]
SET_SUFFIXES = list(CMOV_SUFFIXES)
JCC_SUFFIXES = ["a", "ae", "b", "be", "e", "g", "ge", "l", "le", "ne", "no", "np", "ns", "o", "p", "s"]

ALU = {"add": "XOP_ADD", "adc": "XOP_ADC", "and": "XOP_AND", "cmp": "XOP_CMP", "or": "XOP_OR", "sbb": "XOP_SBB",
       "sub": "XOP_SUB", "xor": "XOP_XOR"}
UNARY = {"inc": "XOP_INC", "dec": "XOP_DEC", "neg": "XOP_NEG", "not": "XOP_NOT"}
SHIFT_CL = {"sal": "XOP_SHL", "sar": "XOP_SAR", "shl": "XOP_SHL", "shr": "XOP_SHR"}
SHIFT_IMM = {"rcr": "XOP_RCR", "sal": "XOP_SHL", "sar": "XOP_SAR", "shl": "XOP_SHL", "shr": "XOP_SHR"}
SHIFT_IMM_REGONLY = {"ror": "XOP_ROR"}
NOOPERAND = {"clc": "XOP_CLC", "cpuid": "XOP_CPUID", "lfence": "XOP_LFENCE", "mfence": "XOP_MFENCE",
             "sfence": "XOP_SFENCE", "rdpmc": "XOP_RDPMC", "rdtsc": "XOP_RDTSC", "rdtscp": "XOP_RDTSCP",
             "ret": "XOP_RET", "xend": "XOP_XEND"}
BMI_RMV = {"bextr": "XOP_BEXTR", "bzhi": "XOP_BZHI", "sarx": "XOP_SARX", "shlx": "XOP_SHLX", "shrx": "XOP_SHRX"}
PREFETCH = {"prefetchnta": "XOP_PREFETCHNTA", "prefetcht0": "XOP_PREFETCHT0", "prefetcht1": "XOP_PREFETCHT1",
            "prefetcht2": "XOP_PREFETCHT2"}

# packed integer ops available for both mm and xmm operands
PACKED_MM_XMM = {"paddb": "XOP_PADDB", "paddd": "XOP_PADDD", "paddq": "XOP_PADDQ", "paddw": "XOP_PADDW",
                 "pand": "XOP_PAND", "pandn": "XOP_PANDN", "pmulhrsw": "XOP_PMULHRSW", "pmulhuw": "XOP_PMULHUW",
                 "pmulhw": "XOP_PMULHW", "pmullw": "XOP_PMULLW", "pmuludq": "XOP_PMULUDQ", "por": "XOP_POR",
                 "psubb": "XOP_PSUBB", "psubd": "XOP_PSUBD", "psubq": "XOP_PSUBQ", "psubw": "XOP_PSUBW",
                 "pxor": "XOP_PXOR"}
# xmm, xmm/m128
SSE_XMM = {"pmulld": "XOP_PMULLD", "pmuldq": "XOP_PMULDQ"}
# xmm, xmm only (the library documents no memory form)
SSE_XMM_REGONLY = {"cvtpd2dq": "XOP_CVTPD2DQ", "divpd": "XOP_DIVPD", "mulpd": "XOP_MULPD",
                   "punpcklqdq": "XOP_PUNPCKLQDQ", "cvtdq2pd": "XOP_CVTDQ2PD"}
# pand's xmm form is register-only in the table ({NA, vv})
XMM_NO_MEM = {"pand"}

AVX_YMM_ONLY = {"vaddpd": "XOP_ADDPD", "vdivpd": "XOP_DIVPD", "vmulpd": "XOP_MULPD", "vsubpd": "XOP_SUBPD",
                "vpermd": "XOP_PERMD"}
AVX_BOTH = {"vpaddb": "XOP_PADDB", "vpaddd": "XOP_PADDD", "vpaddq": "XOP_PADDQ", "vpaddw": "XOP_PADDW",
            "vpand": "XOP_PAND", "vpandn": "XOP_PANDN", "vpmuldq": "XOP_PMULDQ", "vpmulhrsw": "XOP_PMULHRSW",
            "vpmulhuw": "XOP_PMULHUW", "vpmulhw": "XOP_PMULHW", "vpmulld": "XOP_PMULLD", "vpmullw": "XOP_PMULLW",
            "vpmuludq": "XOP_PMULUDQ", "vpor": "XOP_POR", "vpsubb": "XOP_PSUBB", "vpsubd": "XOP_PSUBD",
            "vpsubq": "XOP_PSUBQ", "vpsubw": "XOP_PSUBW", "vpxor": "XOP_PXOR"}
AVX_MOV = {"vmovupd": "XOP_MOVUPD", "vmovdqu": "XOP_MOVDQU"}
AVX_PERM2 = {"vperm2i128": "XOP_PERM2I128", "vperm2f128": "XOP_PERM2F128"}

ALL_MNEMONICS = sorted(set(
    list(ALU) + list(UNARY) + list(SHIFT_IMM) + list(SHIFT_IMM_REGONLY) + list(NOOPERAND) + list(BMI_RMV) +
    list(PREFETCH) + list(PACKED_MM_XMM) + list(SSE_XMM) + list(SSE_XMM_REGONLY) + list(AVX_YMM_ONLY) +
    list(AVX_BOTH) + list(AVX_MOV) + list(AVX_PERM2) +
    ["cmov" + s for s in CMOV_SUFFIXES] + ["set" + s for s in SET_SUFFIXES] + ["j" + s for s in JCC_SUFFIXES] +
    ["jbe", "adcx", "adox", "call", "clflush", "imul", "jmp", "jrcxz", "lea", "mov", "movd", "movntdqa", "movntq",
     "movq", "movzx", "mulx", "nop", "pop", "push", "psrldq", "rorx", "shld", "shrd", "test", "xabort", "xbegin",
     "xchg"] + ["nop%d" % i for i in range(2, 12)]))
