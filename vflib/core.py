"""Core machinery: build /repo with goto-cc, build harnesses, run CBMC, parse
verdicts and traces, replay natively, write evidence.

Everything is regenerated from /repo's current working tree on every run; the
scratch directory is created with mkdtemp outside /repo and /verif and removed
at exit.
"""
import atexit
import concurrent.futures as cf
import glob
import hashlib
import json
import os
import re
import resource
import shutil
import signal
import subprocess
import sys
import tempfile
import time

VERIF = os.path.dirname(os.path.dirname(os.path.abspath(__file__)))
REPO = os.environ.get("VF_REPO", "/repo")
CDIR = os.path.join(VERIF, "c")
JOBS = int(os.environ.get("VF_JOBS", "16"))
MEM_LIMIT_GB = int(os.environ.get("VF_MEM_GB", "14"))

LIB_SOURCES = [
    "assembler.c", "assemblyline.c", "encoder.c", "instr_parser.c",
    "instructions.c", "parser.c", "prefix.c", "reg_parser.c", "registers.c",
    "tokenizer.c",
]

# loops whose bound comes from the repository's constants; computed at run time
# by table_bounds().


class MachineryError(Exception):
    pass


_workdirs = []


def _cleanup():
    for d in _workdirs:
        shutil.rmtree(d, ignore_errors=True)


atexit.register(_cleanup)


def _sig(signum, frame):
    _cleanup()
    os._exit(130)


signal.signal(signal.SIGTERM, _sig)


def workdir(tag="vf"):
    base = os.environ.get("VF_SCRATCH") or tempfile.gettempdir()
    d = tempfile.mkdtemp(prefix="%s-" % tag, dir=base)
    _workdirs.append(d)
    return d


def _limits():
    os.setsid()
    lim = MEM_LIMIT_GB * (1 << 30)
    resource.setrlimit(resource.RLIMIT_AS, (lim, lim))


def run(cmd, timeout=None, cwd=None, stdin=None, limit=True):
    """Run a command; returns (rc, stdout, stderr, wall_s, timed_out)."""
    t0 = time.time()
    env = dict(os.environ)
    env["ASAN_OPTIONS"] = "detect_leaks=0:abort_on_error=0"
    env["UBSAN_OPTIONS"] = "print_stacktrace=0"
    p = subprocess.Popen(cmd, stdout=subprocess.PIPE, stderr=subprocess.PIPE, env=env,
                         stdin=subprocess.PIPE if stdin is not None else subprocess.DEVNULL,
                         cwd=cwd, preexec_fn=_limits if limit else os.setsid)
    try:
        out, err = p.communicate(stdin, timeout=timeout)
        to = False
    except subprocess.TimeoutExpired:
        try:
            os.killpg(p.pid, signal.SIGKILL)
        except ProcessLookupError:
            pass
        out, err = p.communicate()
        to = True
    return p.returncode, out.decode("utf-8", "replace"), err.decode("utf-8", "replace"), time.time() - t0, to


def must(cmd, **kw):
    rc, out, err, _, to = run(cmd, **kw)
    if rc != 0 or to:
        raise MachineryError("command failed (%s): %s\n%s\n%s" % (rc, " ".join(cmd), out[-2000:], err[-4000:]))
    return out


# ---------------------------------------------------------------------------
# building the library with goto-cc

GOTO_CC_FLAGS = ["-std=gnu99", "-I%s/src" % REPO, "-I%s" % REPO, "-I%s" % CDIR,
                 "-DASSEMBLYLINE_VERIF", "-DVF_CBMC=1"]


def build_lib(wd, name="lib", file_defs=None, defs=None, sources=None, tools=False, extra=()):
    """goto-cc the library sources of the *current* /repo tree into ONE goto
    binary with ONE goto-cc invocation.  (cbmc 6.11 trips an internal
    invariant -- boolbv_map literal width -- when a translation unit that uses
    the extern incomplete arrays INSTR_TABLE/REG_TABLE is compiled in another
    invocation than their definition.)  Per-file defines are applied through a
    generated wrapper that #defines and #includes the real source file.
    file_defs: {"reg_parser.c": ["-Dstr_to_reg=str_to_reg_real"]}."""
    file_defs = file_defs or {}
    defs = defs or []
    srcs = list(sources if sources is not None else LIB_SOURCES)
    if tools:
        srcs.append("asmline.c")
    paths = wrapped_sources(wd, name, srcs, file_defs)
    o = os.path.join(wd, "%s_all.gb" % name)
    must(["goto-cc"] + GOTO_CC_FLAGS + defs + ["--export-file-local-symbols"] + paths + list(extra) + ["-o", o])
    return [o]


def wrapped_sources(wd, name, srcs, file_defs):
    """paths of the library sources; a source with per-file directives is
    replaced by a generated wrapper.  Directives: "-DX=Y" -> #define, and any
    string starting with '#' is emitted verbatim before the #include of the
    real file (e.g. '#include "vf_os.h"', '#undef MEM_BUFFER')."""
    paths = []
    for s in srcs:
        real = os.path.join(REPO, "tools" if s == "asmline.c" else "src", s)
        if s in file_defs:
            w = os.path.join(wd, "%s_wrap_%s" % (name, s))
            with open(w, "w") as f:
                for d in file_defs[s]:
                    if d.startswith("#"):
                        f.write(d + "\n")
                    else:
                        assert d.startswith("-D")
                        k, _, v = d[2:].partition("=")
                        f.write("#define %s %s\n" % (k, v if v else "1"))
                f.write('#include "%s"\n' % real)
            paths.append(w)
        else:
            paths.append(real)
    return paths


def build_common(wd, name, c_files, defs=()):
    """one goto binary from files of /verif/c"""
    o = os.path.join(wd, "%s.gb" % name)
    must(["goto-cc"] + GOTO_CC_FLAGS + list(defs) + ["--export-file-local-symbols"] +
         [os.path.join(CDIR, c) for c in c_files] + ["-o", o])
    return o


def compile_harness(wd, name, src_text, lib_objs, extra_srcs=(), defs=(), replace_calls=(),
                    remove_bodies=(), isr=None):
    c = os.path.join(wd, name + ".c")
    with open(c, "w") as f:
        f.write(src_text)
    gb = os.path.join(wd, name + ".gb")
    cmd = ["goto-cc"] + GOTO_CC_FLAGS + list(defs) + ["--export-file-local-symbols", c] + \
        list(extra_srcs) + list(lib_objs) + ["-o", gb]
    must(cmd)
    if replace_calls or remove_bodies:
        gb2 = os.path.join(wd, name + ".i.gb")
        cmd = ["goto-instrument"]
        for a, b in replace_calls:
            cmd += ["--replace-calls", "%s:%s" % (a, b)]
        for a in remove_bodies:
            cmd += ["--remove-function-body", a]
        cmd += [gb, gb2]
        must(cmd)
        os.replace(gb2, gb)
    if isr:
        # interrupt instrumentation: a call of `isr` before every access to the objects it touches
        gb2 = os.path.join(wd, name + ".isr.gb")
        must(["goto-instrument", "--isr", isr, gb, gb2])
        os.replace(gb2, gb)
    return gb


def show_loops(gb):
    out = must(["goto-instrument", "--show-loops", gb])
    return re.findall(r"^Loop (\S+):", out, re.M)


# ---------------------------------------------------------------------------
# running cbmc

BASE_FLAGS = ["--unwinding-assertions", "--drop-unused-functions", "--json-ui",
              "--sat-solver", "cadical", "--slice-formula"]


class Verdict:
    def __init__(self):
        self.status = "error"     # ok | timeout | error | oom
        self.props = {}           # property name -> (status, description)
        self.failed = []          # names of FAILURE properties
        self.wall = 0.0
        self.inputs = {}          # VF_IN index -> value (from trace of first failing non-witness)
        self.traces = {}          # property -> {index: value}
        self.messages = ""
        self.cmd = ""

    def failed_user(self, witness_prefix="WITNESS"):
        return [p for p in self.failed if not self.props[p][1].startswith(witness_prefix)]


_IN_RE = re.compile(r"^VF_IN\[(\d+)l?\]$")


def _trace_inputs(trace):
    vals = {}
    for st in trace:
        if st.get("stepType") != "assignment":
            continue
        lhs = st.get("lhs", "")
        m = _IN_RE.match(lhs)
        if not m:
            continue
        v = st.get("value", {})
        data = v.get("data")
        binary = v.get("binary")
        if binary is not None:
            vals[int(m.group(1))] = int(binary, 2)
        elif data is not None:
            try:
                vals[int(m.group(1))] = int(str(data).rstrip("ulUL")) & ((1 << 64) - 1)
            except ValueError:
                pass
    return vals


def run_cbmc(gb, unwind=None, unwindset=None, flags=(), timeout=300, trace=False,
             props=None, checks="default", malloc_may_fail=False, unwinding_assertions=True):
    cmd = ["cbmc", gb] + BASE_FLAGS
    if not unwinding_assertions:
        # bug-hunting pass only (a failure found is a real path of the program; a pass proves nothing)
        cmd = ["cbmc", gb, "--no-unwinding-assertions"] + [f for f in BASE_FLAGS if f != "--unwinding-assertions"]
    if not malloc_may_fail:
        cmd.append("--no-malloc-may-fail")
    if checks == "none":
        cmd.append("--no-standard-checks")
    elif checks == "full":
        # (no --conversion-check: a negative value converted to an unsigned type is defined behaviour,
        # and the library does it on purpose, e.g. NA = -1 stored in unsigned table fields)
        # (no --pointer-overflow-check either: it flags the mere formation of pointers, never reproduces
        # under a sanitizer, and fires on in-bounds symbolic offsets; dereferences are covered by the
        # default pointer and bounds checks)
        cmd += ["--signed-overflow-check", "--undefined-shift-check", "--div-by-zero-check"]
    elif checks == "default":
        pass
    if unwindset:
        cmd += ["--unwindset", ",".join("%s:%d" % kv for kv in sorted(unwindset.items()))]
    if unwind:
        cmd += ["--unwind", str(unwind)]
    if trace:
        cmd.append("--trace")
    for p in props or ():
        cmd += ["--property", p]
    cmd += list(flags)
    v = Verdict()
    v.cmd = " ".join(cmd)
    rc, out, err, wall, to = run(cmd, timeout=timeout)
    v.wall = wall
    if to:
        v.status = "timeout"
        return v
    try:
        doc = json.loads(out)
    except Exception:
        if "invariant violation" in out or "invariant violation" in err:
            v.status = "error"
            m = re.search(r"Reason: (.*)", out + err)
            v.messages = "cbmc internal invariant violation: %s" % (m.group(1) if m else "?")
            return v
        v.status = "oom" if ("bad_alloc" in err or "Out of memory" in err or rc in (-9, 137)) else "error"
        v.messages = (out[-1500:] + "\n" + err[-1500:])
        return v
    status = None
    msgs = []
    for item in doc:
        if "result" in item:
            for r in item["result"]:
                v.props[r["property"]] = (r["status"], r.get("description", ""))
                if r["status"] == "FAILURE":
                    v.failed.append(r["property"])
                    if "trace" in r:
                        v.traces[r["property"]] = _trace_inputs(r["trace"])
        if "cProverStatus" in item:
            status = item["cProverStatus"]
        if item.get("messageType") == "ERROR":
            msgs.append(item.get("messageText", ""))
    v.messages = "\n".join(msgs)
    if status in ("success", "failure") and v.props:
        v.status = "ok"
    else:
        v.status = "error"
        if not v.messages:
            v.messages = out[-1500:] + err[-1500:]
    return v


def run_cbmc_hunt(gb, unwind, unwindset, checks="default", flags=(), timeout=120, malloc_may_fail=False):
    """Bug-hunting pass: path-wise symbolic execution, stop at the first failing
    property, no unwinding assertions.  Returns (property, description, inputs)
    for a failure found, else None.  A None proves nothing."""
    cmd = ["cbmc", gb, "--paths", "lifo", "--stop-on-fail", "--trace", "--json-ui", "--drop-unused-functions",
           "--no-unwinding-assertions", "--sat-solver", "cadical"]
    if not malloc_may_fail:
        cmd.append("--no-malloc-may-fail")
    if checks == "none":
        cmd.append("--no-standard-checks")
    elif checks == "full":
        cmd += ["--signed-overflow-check", "--undefined-shift-check", "--div-by-zero-check"]
    if unwindset:
        cmd += ["--unwindset", ",".join("%s:%d" % kv for kv in sorted(unwindset.items()))]
    if unwind:
        cmd += ["--unwind", str(unwind)]
    cmd += list(flags)
    rc, out, err, wall, to = run(cmd, timeout=timeout)
    if to:
        return None
    try:
        doc = json.loads(out)
    except Exception:
        return None
    for item in doc:
        if isinstance(item, dict) and item.get("status") == "failed" and "trace" in item:
            return item.get("property"), item.get("description", ""), _trace_inputs(item["trace"])
    return None


# ---------------------------------------------------------------------------
# parallel pool

def pmap(fn, items, jobs=None):
    jobs = jobs or JOBS
    res = [None] * len(items)
    done = 0
    t0 = time.time()
    with cf.ThreadPoolExecutor(max_workers=jobs) as ex:
        futs = {ex.submit(fn, it): i for i, it in enumerate(items)}
        for fu in cf.as_completed(futs):
            res[futs[fu]] = fu.result()
            done += 1
            if done % 50 == 0 and os.environ.get("VF_PROGRESS"):
                sys.stderr.write("progress %d/%d %.0fs\n" % (done, len(items), time.time() - t0))
                sys.stderr.flush()
    return res


def pmap_mixed(jobs):
    """jobs: list of (function, argument) of different kinds in one pool, in the
    given order (put the long ones first)."""
    return pmap(lambda j: j[0](j[1]), jobs)


# ---------------------------------------------------------------------------
# native builds for replay

def build_native(wd, name, srcs, defs=(), sanitize=False, extra=()):
    exe = os.path.join(wd, name)
    cmd = ["gcc", "-std=gnu99", "-O0", "-g", "-w", "-I%s/src" % REPO, "-I%s" % REPO, "-I%s" % CDIR]
    if sanitize:
        cmd = ["clang-14", "-std=gnu99", "-O0", "-g", "-w", "-fsanitize=address,undefined",
               "-fno-sanitize-recover=undefined", "-I%s/src" % REPO, "-I%s" % REPO, "-I%s" % CDIR]
    cmd += list(defs) + list(srcs) + list(extra) + ["-o", exe]
    must(cmd, limit=False)
    return exe


def repo_sources(exclude=()):
    return [os.path.join(REPO, "src", s) for s in LIB_SOURCES if s not in exclude]


def repo_fingerprint():
    h = hashlib.sha256()
    for p in sorted(glob.glob(os.path.join(REPO, "src", "*.[ch]")) + glob.glob(os.path.join(REPO, "tools", "*.[ch]"))):
        h.update(p.encode())
        with open(p, "rb") as f:
            h.update(f.read())
    return h.hexdigest()[:16]


# ---------------------------------------------------------------------------
# table bounds from the current tree (never hard-coded)

def table_bounds(wd):
    """Compile a tiny native program against the current tree that prints the
    lengths of INSTR_TABLE / OPD_FORMAT_TABLE / REG_TABLE and the constants the
    unwinding bounds depend on."""
    src = r'''
#include <stdio.h>
#include "common.h"
#include "enums.h"
#include "instructions.h"
#include "registers.h"
int main(void){
  int n=0; while(INSTR_TABLE[n].name!=NA) n++;
  int m=0; while(OPD_FORMAT_TABLE[m].val!=opd_error) m++;
  int r=0; while(REG_TABLE[r].gen_reg!=reg_error) r++;
  printf("{\"instr_rows\":%d,\"opd_rows\":%d,\"reg_rows\":%d,\"FILTERED_STR_LEN\":%d,\"MAX_INSTR_LEN\":%d,\"MEM_BUFFER\":%d,\"BUFFER_TOLERANCE\":%d,\"INSTRUCTION_CHAR_LEN\":%d}\n",
    n,m,r,FILTERED_STR_LEN,MAX_INSTR_LEN,MEM_BUFFER,BUFFER_TOLERANCE,INSTRUCTION_CHAR_LEN);
  return 0; }
'''
    c = os.path.join(wd, "tb.c")
    with open(c, "w") as f:
        f.write(src)
    exe = build_native(wd, "tb", [c, os.path.join(REPO, "src", "instructions.c"),
                                  os.path.join(REPO, "src", "registers.c")])
    return json.loads(must([exe], limit=False))


# ---------------------------------------------------------------------------
# evidence

def write_evidence(pid, tier, level, coverage, assumptions, wall, violations, seed=None):
    seed = int(os.environ.get("VERIF_SEED", "0")) if seed is None else seed
    ev = {
        "property_id": pid, "tier": tier, "seed": seed, "level": level,
        "coverage": coverage, "assumptions": assumptions,
        "wall_s": round(wall, 2), "violations": violations,
    }
    if os.environ.get("VF_NO_EVIDENCE"):
        return None     # partial (--only) and replay runs do not overwrite the evidence of full runs
    os.makedirs(os.path.join(VERIF, "evidence"), exist_ok=True)
    p = os.path.join(VERIF, "evidence", "%s.json" % pid)
    tmp = p + ".tmp"
    with open(tmp, "w") as f:
        json.dump(ev, f, indent=1, sort_keys=True)
        f.write("\n")
    os.replace(tmp, p)
    return p


def load_known():
    p = os.path.join(VERIF, "known_findings.json")
    if not os.path.exists(p):
        return []
    with open(p) as f:
        return json.load(f)["findings"]


def write_replay(pid, n, doc):
    d = os.path.join(VERIF, "replays")
    os.makedirs(d, exist_ok=True)
    p = os.path.join(d, "%s-%s.json" % (pid, n))
    with open(p, "w") as f:
        json.dump(doc, f, indent=1, sort_keys=True)
        f.write("\n")
    return p


_REPLAY_DOC = None


def replay_doc(name):
    """./vf replay <file>: the recorded counterexample for query `name`, or None.
    Engines then skip the solver and run only the native replay of that input
    against the current tree."""
    global _REPLAY_DOC
    p = os.environ.get("VF_REPLAY_FILE")
    if not p:
        return None
    if _REPLAY_DOC is None:
        with open(p) as f:
            _REPLAY_DOC = json.load(f)
    if _REPLAY_DOC.get("query") != name or not _REPLAY_DOC.get("inputs"):
        return None
    return {int(k): int(v) for k, v in _REPLAY_DOC["inputs"].items()}


def seed():
    try:
        return int(os.environ.get("VERIF_SEED", "0") or 0)
    except ValueError:
        return 0


def log(*a):
    print(*a, flush=True)
