"""./vf replay <file>: run the recorded counterexample of one query natively
against /repo's current tree (no solver).  Exit 1 + VIOLATION line if it still
reproduces, 0 if the current tree no longer shows it."""
import importlib
import json
import os


def main(path):
    path = os.path.abspath(path)
    with open(path) as f:
        doc = json.load(f)
    os.environ["VF_REPLAY_FILE"] = path
    os.environ["VF_NO_EVIDENCE"] = "1"
    mod = importlib.import_module("checks.%s" % doc["property"].lower())
    return mod.run("quick", doc["query"])
