"""./vf setup: offline sanity gate of the trusted base (tools present, libc
models agree with glibc, reference decoder agrees with nasm/objdump)."""
import shutil
import sys

from . import core


def main():
    ok = True
    for tool in ("cbmc", "goto-cc", "goto-instrument", "gcc", "nasm", "objdump"):
        if not shutil.which(tool):
            core.log("setup: missing tool %s" % tool)
            ok = False
    return 0 if ok else 1
