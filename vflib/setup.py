"""./vf setup: offline sanity gate of the trusted base (tools present, libc
models agree with glibc, reference decoder agrees with nasm/objdump, kinds
table reproducible).  Nothing here decides a property."""
import json
import os
import shutil
import subprocess
import sys

from . import core


def main():
    ok = True
    for tool in ("cbmc", "goto-cc", "goto-instrument", "gcc", "clang-14", "nasm", "objdump"):
        if not shutil.which(tool):
            core.log("setup: missing tool %s" % tool)
            ok = False
    if not ok:
        return 1
    wd = core.workdir("vf-setup")
    # libc models vs glibc
    exe = os.path.join(wd, "tlm")
    core.must(["gcc", "-O1", "-w", "-DVF_MODEL_NATIVE_TEST", os.path.join(core.VERIF, "tools", "test_libc_models.c"),
               os.path.join(core.CDIR, "libc_models.c"), "-o", exe], limit=False)
    rc, out, err, _, _ = core.run([exe, "100000", "7"], timeout=120, limit=False)
    core.log(out.strip().splitlines()[-1] if out.strip() else "libc model test produced no output")
    if rc != 0:
        core.log(out[-1500:])
        ok = False
    # reference decoder vs nasm / objdump
    r = subprocess.run([sys.executable, os.path.join(core.VERIF, "tools", "validate_x86dec.py"), "6", "11"],
                       stdout=subprocess.PIPE, stderr=subprocess.STDOUT, universal_newlines=True)
    core.log(r.stdout.strip().splitlines()[-1] if r.stdout.strip() else "x86dec validation produced no output")
    if r.returncode != 0:
        core.log(r.stdout[-2000:])
        ok = False
    # kinds table reproducible with the installed nasm
    tmp = os.path.join(wd, "kinds.json")
    r = subprocess.run([sys.executable, os.path.join(core.VERIF, "tools", "gen_kinds.py"), tmp], stdout=subprocess.PIPE, stderr=subprocess.STDOUT, universal_newlines=True)
    try:
        same = json.load(open(tmp)) == json.load(open(os.path.join(core.VERIF, "spec", "kinds.json")))
    except Exception:
        same = False
    core.log("kinds table %s" % ("reproduced" if same else "DIFFERS from spec/kinds.json"))
    ok = ok and same
    # the repository builds with goto-cc
    try:
        core.build_lib(wd, "probe")
        core.log("goto-cc build of /repo/src ok")
    except core.MachineryError as e:
        core.log("goto-cc build failed: %s" % str(e)[-800:])
        ok = False
    return 0 if ok else 1
