"""TOK engine: text-layer units on arbitrary bounded strings."""
import os
import threading
import re

from . import core, glue

TOK_ASSUMPTIONS = [
    "unit-level (assume-guarantee) decomposition of the text layer: each scanner runs for real on an arbitrary bounded string; whole-line symbolic text is out of reach of CBMC on this parser (DESIGN.md section 2)",
    "libc models written for CBMC: strstr, strtok_r, strtoul (differential-tested against glibc at setup)",
    "a leaf counterexample counts only if it reproduces through asm_assemble_str on a natively built library under ASan+UBSan or in CBMC on the fully concrete line with no stub",
]


class TokEngine(glue.GlueEngine):
    def __init__(self, pid, tier):
        super().__init__(pid, tier, stubs=False)
        self.min_harness_bound = max(self.tb["FILTERED_STR_LEN"] + 12, self.tb["instr_rows"] + 8)

    def unit(self, name, cfile, defs=(), replace=(), unwind=110, unwindset=None, checks="full", timeout=None, replay_fn=None,
             common=("vf_main.c", "libc_models.c"), ignore_props=(), exclude=None, only=None, hunt=None, isr=None, native_extra=()):
        defs = list(defs) + ["-DVF_MODEL_STRTOUL"]
        uw = {"strncpy.0": 110}
        uw.update(unwindset or {})
        return self.run(name, cfile, defs=defs, unwind=unwind, unwindset=uw, checks=checks, common=common,
                        replace=list(replace), timeout=timeout, replay_fn=replay_fn, ignore_props=ignore_props,
                        exclude=exclude, only=only, hunt=hunt, isr=isr, native_extra=native_extra)


_API_LOCK = threading.Lock()


def api_confirm(eng, lines, tag):
    """Run candidate program texts (bytes) through the public API of a natively
    built, sanitized library.  Returns (reproduced, detail)."""
    with _API_LOCK:
        exe = _api_driver(eng)
    for t in lines:
        args = ["%02x" % b for b in t]
        rc, out, err, _, to = core.run([exe] + args, timeout=20, limit=False)
        if to or rc not in (0,) or "AddressSanitizer" in err or "runtime error" in err:
            return True, "line %r: exit %s timeout=%s %s" % (bytes(t), rc, to, (err or out)[-600:])
    return False, "no candidate line reproduced natively"


def _api_driver(eng):
    drv = os.path.join(eng.wd, "apidrv.c")
    if not os.path.exists(drv):
        with open(drv, "w") as f:
            f.write(r'''
#include <assemblyline.h>
#include <stdio.h>
#include <stdlib.h>
#include <string.h>
int main(int argc, char **argv) {
  static unsigned char buf[8192]; static char text[4096];
  int n = 0;
  for (int i = 1; i < argc && n < 4000; i++) text[n++] = (char)strtoul(argv[i], 0, 16);
  text[n] = 0;
  assemblyline_t al = asm_create_instance(buf, sizeof buf);
  int rc = asm_assemble_str(al, text);
  int cnt = 0;
  asm_set_offset(al, 0);
  asm_set_chunk_size(al, 16);
  int rc2 = asm_assemble_str(al, text);
  printf("rc=%d rc2=%d off=%d\n", rc, rc2, asm_get_offset(al));
  (void)cnt;
  return 0;
}
''')
    exe = os.path.join(eng.wd, "apidrv")
    if not os.path.exists(exe):
        core.build_native(eng.wd, "apidrv", [drv] + core.repo_sources(), sanitize=True)
    return exe
