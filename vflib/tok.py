"""TOK engine: text-layer units on arbitrary bounded strings."""
import os
import threading
import re

from . import core, glue

TOK_ASSUMPTIONS = [
    "unit-level (assume-guarantee) decomposition of the text layer: each scanner runs for real on an arbitrary bounded string; whole-line symbolic text is out of reach of CBMC on this parser (DESIGN.md section 2)",
    "libc models written for CBMC: strstr, strtok_r, strtoul (differential-tested against glibc at setup)",
    "a leaf counterexample counts only if it reproduces through asm_assemble_str on a natively built library under ASan+UBSan or in CBMC on the fully concrete line with no stub",
]


class TokEngine(glue.GlueEngine):
    def __init__(self, pid, tier):
        super().__init__(pid, tier, stubs=False)
        self.min_harness_bound = max(self.tb["FILTERED_STR_LEN"] + 12, self.tb["instr_rows"] + 8)

    def unit(self, name, cfile, defs=(), replace=(), unwind=110, unwindset=None, checks="full", timeout=None, replay_fn=None,
             common=("vf_main.c", "libc_models.c"), ignore_props=(), exclude=None, only=None, hunt=None, isr=None, native_extra=(), extra_flags=()):
        defs = list(defs) + ["-DVF_MODEL_STRTOUL"]
        uw = {"strncpy.0": 110}
        uw.update(unwindset or {})
        return self.run(name, cfile, defs=defs, unwind=unwind, unwindset=uw, checks=checks, common=common,
                        replace=list(replace), timeout=timeout, replay_fn=replay_fn, ignore_props=ignore_props,
                        exclude=exclude, only=only, hunt=hunt, isr=isr, native_extra=native_extra, extra_flags=extra_flags)


_API_LOCK = threading.Lock()


def api_confirm(eng, lines, tag):
    """Run candidate program texts (bytes) through the public API of a natively
    built, sanitized library.  Returns (reproduced, detail)."""
    with _API_LOCK:
        exe = _api_driver(eng)
    for t in lines:
        args = ["%02x" % b for b in t]
        rc, out, err, _, to = core.run([exe] + args, timeout=20, limit=False)
        if to or rc not in (0,) or "AddressSanitizer" in err or "runtime error" in err:
            return True, "line %r: exit %s timeout=%s %s" % (bytes(t), rc, to, (err or out)[-600:])
    return False, "no candidate line reproduced natively"


def _api_driver(eng):
    drv = os.path.join(eng.wd, "apidrv.c")
    if not os.path.exists(drv):
        with open(drv, "w") as f:
            f.write(r'''
#include <assemblyline.h>
#include <stdio.h>
#include <stdlib.h>
#include <string.h>
int main(int argc, char **argv) {
  static unsigned char buf[8192]; static char text[4096];
  int n = 0;
  for (int i = 1; i < argc && n < 4000; i++) text[n++] = (char)strtoul(argv[i], 0, 16);
  text[n] = 0;
  assemblyline_t al = asm_create_instance(buf, sizeof buf);
  int rc = asm_assemble_str(al, text);
  int cnt = 0;
  asm_set_offset(al, 0);
  asm_set_chunk_size(al, 16);
  int rc2 = asm_assemble_str(al, text);
  printf("rc=%d rc2=%d off=%d\n", rc, rc2, asm_get_offset(al));
  (void)cnt;
  return 0;
}
''')
    exe = os.path.join(eng.wd, "apidrv")
    if not os.path.exists(exe):
        core.build_native(eng.wd, "apidrv", [drv] + core.repo_sources(), sanitize=True)
    return exe


RELCMP_SRC = r"""
#include <assemblyline.h>
#include <stdio.h>
#include <stdlib.h>
#include <string.h>
static int unhex(const char *h, char *out) { int n = 0; for (; h[0] && h[1]; h += 2) { unsigned v; sscanf(h, "%2x", &v); out[n++] = (char)v; } out[n] = 0; return n; }
static int run(const char *text, unsigned char *out, int *len) {
  static unsigned char buf[4096];
  assemblyline_t al = asm_create_instance(buf, sizeof buf);
  int rc = asm_assemble_str(al, text);
  *len = rc == 0 ? asm_get_offset(al) : 0;
  memcpy(out, buf, *len);
  asm_destroy_instance(al);
  return rc;
}
int main(void) {
  static char l[20000], a[8192], b[8192]; static unsigned char oa[4096], ob[4096];
  int n = 0;
  while (fgets(l, sizeof l, stdin)) {
    char *sp = strchr(l, ' '); if (!sp) continue; *sp = 0;
    char *e = strchr(sp + 1, '\n'); if (e) *e = 0;
    unhex(l, a); unhex(sp + 1, b);
    int la, lb, ra = run(a, oa, &la), rb = run(b, ob, &lb);
    if (ra != rb || la != lb || memcmp(oa, ob, la)) { printf("DIFF %d rc %d %d len %d %d\n", n, ra, rb, la, lb); }
    n++;
  }
  printf("DONE %d\n", n);
  return 0;
}
"""


def rel_confirm(eng, mode, corpus):
    """A relational (spelling) counterexample of the filter-level lemma counts
    only if the rewriting changes an observable result: the rewriting class of
    `mode` is applied to every line of `corpus` (valid lines, lower case, single
    blanks) and both spellings are assembled natively.  Returns (reproduced, detail)."""
    with _API_LOCK:
        drv = os.path.join(eng.wd, "relcmp.c")
        exe = os.path.join(eng.wd, "relcmp")
        if not os.path.exists(exe):
            with open(drv, "w") as f:
                f.write(RELCMP_SRC)
            core.build_native(eng.wd, "relcmp", [drv] + core.repo_sources())
    pairs = []
    for line in corpus:
        if mode == "case":
            for ch in sorted(set(c for c in line if c.isalpha())):
                pairs.append((line, line.replace(ch, ch.upper())))
            pairs.append((line, line.upper()))
        elif mode == "blankrun":
            pairs.append((line, " \t" * 50 + line))
            pairs.append((line, line.replace(" ", " " + " \t" * 50, 1)))
            pairs.append((line, " \t" * 30 + line.replace(" ", " " + " \t" * 30, 1)))
        elif mode == "blank":
            pairs.append((line, "  " + line))
            pairs.append((line, line.replace(",", " , ").replace("[", "[ ").replace("]", " ]").replace("+", " + ").replace("*", " * ")))
            pairs.append((line, line.replace(" ", "  ") + "  "))
        else:
            pairs.append((line, line + " ; a comment: with, punctuation [x]"))
            pairs.append((line + "\n", line + "\r\n"))
            pairs.append((line, line + ";"))
    inp = "".join("%s %s\n" % ((a + ("" if a.endswith("\n") else "\n")).encode().hex(), (b + ("" if b.endswith("\n") else "\n")).encode().hex()) for a, b in pairs)
    rc, out, err, _, to = core.run([exe], timeout=120, stdin=inp.encode(), limit=False)
    diffs = [l for l in out.splitlines() if l.startswith("DIFF")]
    if diffs:
        i = int(diffs[0].split()[1])
        return True, "spellings differ observably: %r vs %r (%s); %d of %d pairs differ" % (pairs[i][0], pairs[i][1], diffs[0], len(diffs), len(pairs))
    return False, "no observable difference on %d corpus pairs (%s)" % (len(pairs), (out or err)[-200:])
