"""Checks built on the OS model (C08, C17, C19)."""
import fnmatch

from . import core, glue, report

REC = [("asm_assemble_str", "rec_assemble_str"), ("asm_assemble_string_counting_chunks", "rec_assemble_counting")]
COMMON = ("vf_os.c", "glue.c", "vf_main.c", "libc_models.c")
UW = {"assemble_all.0": 4, "vf_mmap.0": 300, "vf_mmap.1": 300, "vf_mmap.2": 300, "vf_mremap.0": 300, "vf_fwrite.0": 70,
      "__CPROVER_file_local_parser_c_assemble_with_chunk_fitting.0": 4, "nop_padding.1": 3,
      "__CPROVER_file_local_glue_c19_c_rec_check.0": 120, "__CPROVER_file_local_glue_c19_c_rec_check.1": 120,
      "rec_check.0": 120, "rec_check.1": 120}

OS_ASSUMPTIONS = [
    "OS model /verif/c/vf_os.c: the library's calls to malloc/free/mmap/mremap/munmap/open/fstat/close/fopen/fwrite/fclose are redirected to it by a wrapper translation unit (no change to /repo)",
    "anonymous and file mappings cover whole model pages (OS_PAGE bytes; the library never mentions the page size); bytes after the file's end inside the last page read as zero, anything beyond is unmapped",
    "the managed code buffer lives in one arena object; a moving mremap returns a different address and the model asserts that mremap/munmap receive the mapping's current address and size; mapping contents are not simulated (preserved by mremap's contract) -- the replay build uses the real system calls",
    "fault schedule: each kind of OS call may fail at its 1st..4th occurrence, independently per kind",
]


def run_queries(pid, tier, specs, symbolic, bounds, rule, funcs, only=None):
    """specs: list of dict(name, cfile, defs, mem_buffer, stubs, replace, timeout)"""
    rep = report.Report(pid, tier, "model_checking")
    engines = {}

    def eng_for(q):
        key = (q.get("mem_buffer"), bool(q.get("stubs")))
        if key not in engines:
            engines[key] = glue.OsEngine(pid, tier, mem_buffer=q.get("mem_buffer"), stubs=bool(q.get("stubs")))
        return engines[key]
    if only:
        specs = [q for q in specs if fnmatch.fnmatch(q["name"], only)]
    for q in specs:
        eng_for(q)

    def job(q):
        e = eng_for(q)
        uw = dict(UW)
        uw.update(q.get("unwindset", {}))
        return e.run(q["name"], q["cfile"], defs=q["defs"], unwind=q.get("unwind", 20), unwindset=uw, common=COMMON,
                     replace=q.get("replace"), timeout=q.get("timeout"))
    rep.add(core.pmap(job, specs))
    return rep.finish({"symbolic_per_query": symbolic, "queries": [q["name"] + ": " + " ".join(q["defs"]) for q in specs]},
                      glue.GLUE_ASSUMPTIONS[:3] + OS_ASSUMPTIONS, bounds, rule, funcs)
