"""Skeleton families of the ENC engine (C01-C05, C11, C16/number base, C06/C).

Every function returns a list of encgen.Skel.  `quick` selects the per-change
subset; the thorough tier enumerates every documented form x shape.
"""
import re

from . import forms as F
from .encgen import Skel, MemShape, add_mem, ALL_SHAPE_KINDS

G8 = "CM_GPR8ALL"
GV = "CM_GPRV"
GALL = "CM_GPRALL"
G64 = "CM(RC_GPR64)"
G32 = "CM(RC_GPR32)"
G16 = "CM(RC_GPR16)"
GY = "(CM(RC_GPR32) | CM(RC_GPR64))"
MM = "CM(RC_MM)"
XMM = "CM(RC_XMM)"
YMM = "CM(RC_YMM)"


def same_size(sk, a, b):
    sk.decl.append("ASSUME(vf_regsize(R%d) == vf_regsize(R%d));" % (a, b))


def chk_op(sk, xop, vex=0):
    sk.want = xop
    sk.post.append('CHECK(D.op == %s, "decodes to the operation written");' % xop)
    sk.post.append('CHECK(D.vex == %d, "legacy/VEX encoding space as the mnemonic demands");' % vex)


def chk_nopd(sk, n):
    sk.post.append('CHECK(D.nopd == %d, "operand count");' % n)


def chk_reg(sk, i, k):
    sk.post.append('CHECK(vf_chk_reg(&D.opd[%d], R%d), "operand %d is the written register");' % (i, k, i + 1))
    sk.high_rex.append("R%d" % k)


def chk_osize_reg(sk, k):
    sk.post.append('CHECK(D.osize == vf_regsize(R%d), "operand size is the size of the written register");' % k)
    if sk.rexw == "0":
        sk.rexw = "vf_regsize(R%d) == 64" % k


def chk_mem(sk, i, var, msize_expr):
    """memory operand i must denote the written address; width msize_expr (C expr, 0 = unsized)"""
    sk.post.append(
        "if (%(v)s.has_index && %(v)s.index.num == 4 && vf_opt_sw == 0) "
        'CHECK(vf_chk_mem_literal_sp_index(&D.opd[%(i)d], &%(v)s), "STRICT swap: stack-pointer index is encoded literally"); '
        'else CHECK(vf_chk_mem(&D.opd[%(i)d], &%(v)s), "memory operand denotes the written address");' % {"v": var, "i": i})
    sk.post.append('CHECK(D.opd[%d].msize == (%s), "memory access width as written");' % (i, msize_expr))


def mem_validity(sk, var, shape):
    """exclude what x86-64 cannot encode / C10 demands rejected"""
    if shape.has_index():
        if "*" in shape.kind:
            sk.decl.append("ASSUME(%s.index.num != 4);" % var)       # stack pointer is not scalable
        elif shape.has_base():
            sk.decl.append("ASSUME(!(%s.index.num == 4 && %s.base.num == 4));" % (var, var))
        else:
            sk.decl.append("ASSUME(%s.index.num != 4);" % var)


# ---------------------------------------------------------------------------
# C01: integer instructions on registers

def c01_families(quick):
    out = []

    def two_reg(mn, xop, mask0, mask1, sizes="same", commut=False, order=(0, 1)):
        sk = Skel("c01.%s.rr" % mn, "int.rr", mn)
        a = sk.reg(mask0)
        b = sk.reg(mask1)
        if sizes == "same":
            same_size(sk, a, b)
        sk.t(mn + " ").treg(a).t(", ").treg(b)
        chk_op(sk, xop)
        chk_nopd(sk, 2)
        if commut:
            sk.post.append('CHECK((vf_chk_reg(&D.opd[0], R0) && vf_chk_reg(&D.opd[1], R1)) || '
                           '(vf_chk_reg(&D.opd[0], R1) && vf_chk_reg(&D.opd[1], R0)), "the two exchanged registers");')
            sk.high_rex += ["R0", "R1"]
            sk.post.append('CHECK(!(D.nop90 && D.osize == 32), "opcode 90 is not xchg eax,eax in 64-bit mode (it does not clear the upper half of rax)");')
        else:
            chk_reg(sk, 0, a)
            chk_reg(sk, 1, b)
        chk_osize_reg(sk, a)
        return sk

    for mn, xop in list(F.ALU.items()) + [("mov", "XOP_MOV"), ("test", "XOP_TEST")]:
        out.append(two_reg(mn, xop, GALL, GALL))
    out.append(two_reg("xchg", "XOP_XCHG", GALL, GALL, commut=True))
    # movzx r16/32/64, r8/16
    sk = Skel("c01.movzx.rr", "int.rr", "movzx")
    a = sk.reg(GV)
    b = sk.reg("(CM_GPR8ALL | CM(RC_GPR16))")
    sk.decl.append("ASSUME(vf_regsize(R1) < vf_regsize(R0));")
    sk.t("movzx ").treg(a).t(", ").treg(b)
    chk_op(sk, "XOP_MOVZX"); chk_nopd(sk, 2); chk_reg(sk, 0, a); chk_reg(sk, 1, b); chk_osize_reg(sk, a)
    out.append(sk)
    for sfx in F.CMOV_SUFFIXES:
        mn = "cmov" + sfx
        out.append(two_reg(mn, "(XOP_CMOVCC + %d)" % F.CC[sfx], GV, GV))
    out.append(two_reg("imul", "XOP_IMUL", GV, GV))
    # one register operand
    for mn, xop in list(F.UNARY.items()) + [("imul", "XOP_IMUL")]:
        sk = Skel("c01.%s.r" % mn, "int.r", mn)
        a = sk.reg(GALL)
        sk.t(mn + " ").treg(a)
        chk_op(sk, xop); chk_nopd(sk, 1); chk_reg(sk, 0, a); chk_osize_reg(sk, a)
        out.append(sk)
    for mn, xop in (("push", "XOP_PUSH"), ("pop", "XOP_POP")):
        sk = Skel("c01.%s.r" % mn, "int.r", mn)
        a = sk.reg("(CM(RC_GPR64) | CM(RC_GPR16))")
        sk.t(mn + " ").treg(a)
        chk_op(sk, xop); chk_nopd(sk, 1); chk_reg(sk, 0, a)
        sk.post.append('CHECK(D.osize == vf_regsize(R0), "operand size");')
        out.append(sk)
    for sfx in F.SET_SUFFIXES:
        mn = "set" + sfx
        sk = Skel("c01.%s.r" % mn, "int.r", mn)
        a = sk.reg(G8)
        sk.t(mn + " ").treg(a)
        chk_op(sk, "(XOP_SETCC + %d)" % F.CC[sfx]); chk_nopd(sk, 1); chk_reg(sk, 0, a)
        out.append(sk)
    # shifts by cl and by the literal 1
    for mn, xop in F.SHIFT_CL.items():
        sk = Skel("c01.%s.r_cl" % mn, "int.shift", mn)
        a = sk.reg(GALL)
        sk.t(mn + " ").treg(a).t(", cl")
        chk_op(sk, xop); chk_nopd(sk, 2); chk_reg(sk, 0, a); chk_osize_reg(sk, a)
        sk.post.append('CHECK(D.opd[1].kind == XK_REG && D.opd[1].rc == RC_GPR8 && D.opd[1].num == 1, "count register is cl");')
        out.append(sk)
    for mn, xop in list(F.SHIFT_IMM.items()) + list(F.SHIFT_IMM_REGONLY.items()):
        sk = Skel("c01.%s.r_1" % mn, "int.shift", mn)
        a = sk.reg(GALL)
        sk.t(mn + " ").treg(a).t(", 1")
        chk_op(sk, xop); chk_nopd(sk, 2); chk_reg(sk, 0, a); chk_osize_reg(sk, a)
        sk.post.append('CHECK(D.opd[1].kind == XK_IMM && (D.opd[1].imm & 0xff) == 1, "shift count is 1");')
        out.append(sk)
    sk = Skel("c01.shld.rr_cl", "int.shift", "shld")
    a = sk.reg(GV); b = sk.reg(GV); same_size(sk, a, b)
    sk.t("shld ").treg(a).t(", ").treg(b).t(", cl")
    chk_op(sk, "XOP_SHLD"); chk_nopd(sk, 3); chk_reg(sk, 0, a); chk_reg(sk, 1, b); chk_osize_reg(sk, a)
    sk.post.append('CHECK(D.opd[2].kind == XK_REG && D.opd[2].rc == RC_GPR8 && D.opd[2].num == 1, "count register is cl");')
    out.append(sk)
    # no-operand instructions
    for mn, xop in F.NOOPERAND.items():
        sk = Skel("c01.%s" % mn, "int.noopd", mn)
        sk.t(mn)
        chk_op(sk, xop); chk_nopd(sk, 0)
        out.append(sk)
    for i in range(1, 12):
        mn = "nop" if i == 1 else "nop%d" % i
        sk = Skel("c01.%s" % mn, "int.noopd", mn)
        sk.t(mn)
        sk.want = "XOP_NOP"
        sk.post.append('CHECK(D.op == XOP_NOP, "decodes to a NOP");')
        sk.post.append('CHECK(n == %d, "NOP of the requested length");' % i)
        out.append(sk)
    return out


# ---------------------------------------------------------------------------
# C04: MMX / SSE / AVX / AVX2 / BMI2 / ADX register forms

def _vec(name, fam, mn, xop, vex, opds, extra_post=(), imm8=False):
    """opds: list of (mask, letter)"""
    sk = Skel(name, fam, mn)
    ks = [sk.reg(m, l) for m, l in opds]
    sk.t(mn + " ")
    for i, k in enumerate(ks):
        if i:
            sk.t(", ")
        sk.treg(k)
    n = len(ks)
    if imm8:
        kn = sk.num("$ <= 0xff")
        sk.t(", ").tnum(kn, "hex")
        n += 1
    chk_op(sk, xop, vex)
    chk_nopd(sk, n)
    for i, k in enumerate(ks):
        chk_reg(sk, i, k)
    if imm8:
        sk.post.append('CHECK(D.opd[%d].kind == XK_IMM && D.opd[%d].immw == 8 && (D.opd[%d].imm & 0xff) == (long)N0, "8-bit immediate carries the written value");' % (n - 1, n - 1, n - 1))
    for p in extra_post:
        sk.post.append(p)
    return sk


def c04_families(quick):
    out = []
    X = (XMM, "x")
    Y = (YMM, "y")
    Mm = (MM, "r")
    for mn, xop in F.PACKED_MM_XMM.items():
        out.append(_vec("c04.%s.xx" % mn, "sse.rr", mn, xop, 0, [X, X]))
        out.append(_vec("c04.%s.mm" % mn, "mmx.rr", mn, xop, 0, [Mm, Mm]))
    for mn, xop in list(F.SSE_XMM.items()) + list(F.SSE_XMM_REGONLY.items()):
        out.append(_vec("c04.%s.xx" % mn, "sse.rr", mn, xop, 0, [X, X]))
    out.append(_vec("c04.psrldq.xi", "sse.ri", "psrldq", "XOP_PSRLDQ", 0, [X], imm8=True))
    # moves between general and vector registers
    out.append(_vec("c04.movd.x_r32", "sse.mov", "movd", "XOP_MOVD", 0, [X, (G32, "r")]))
    out.append(_vec("c04.movd.r32_x", "sse.mov", "movd", "XOP_MOVD", 0, [(G32, "r"), X]))
    out.append(_vec("c04.movq.x_r64", "sse.mov", "movq", "XOP_MOVQ", 0, [X, (G64, "r")]))
    out.append(_vec("c04.movq.r64_x", "sse.mov", "movq", "XOP_MOVQ", 0, [(G64, "r"), X]))
    out.append(_vec("c04.movq.xx", "sse.mov", "movq", "XOP_MOVQ", 0, [X, X]))
    # AVX
    for mn, xop in F.AVX_YMM_ONLY.items():
        out.append(_vec("c04.%s.yyy" % mn, "avx.rrr", mn, xop, 1, [Y, Y, Y]))
    for mn, xop in F.AVX_BOTH.items():
        out.append(_vec("c04.%s.yyy" % mn, "avx.rrr", mn, xop, 1, [Y, Y, Y]))
        out.append(_vec("c04.%s.xxx" % mn, "avx.rrr", mn, xop, 1, [X, X, X]))
    for mn, xop in F.AVX_MOV.items():
        out.append(_vec("c04.%s.yy" % mn, "avx.rr", mn, xop, 1, [Y, Y]))
        out.append(_vec("c04.%s.xx" % mn, "avx.rr", mn, xop, 1, [X, X]))
    for mn, xop in F.AVX_PERM2.items():
        out.append(_vec("c04.%s.yyyi" % mn, "avx.rrri", mn, xop, 1, [Y, Y, Y], imm8=True))
    # BMI2 / ADX on general registers, 32 and 64 bit
    def gsame(sk, ks):
        for k in ks[1:]:
            same_size(sk, ks[0], k)
    for mn, xop in list(F.BMI_RMV.items()) + [("mulx", "XOP_MULX")]:
        sk = _vec("c04.%s.rrr" % mn, "bmi.rrr", mn, xop, 1, [(GY, "r")] * 3)
        gsame(sk, [0, 1, 2])
        out.append(sk)
    sk = _vec("c04.rorx.rri", "bmi.rri", "rorx", "XOP_RORX", 1, [(GY, "r")] * 2, imm8=True)
    gsame(sk, [0, 1])
    out.append(sk)
    for mn, xop in (("adcx", "XOP_ADCX"), ("adox", "XOP_ADOX")):
        sk = _vec("c04.%s.rr" % mn, "adx.rr", mn, xop, 0, [(GY, "r")] * 2)
        gsame(sk, [0, 1])
        out.append(sk)
    return out


# ---------------------------------------------------------------------------
# C02: memory operands

KW_BITS = {"byte": 8, "word": 16, "dword": 32, "qword": 64}


def quick_shapes():
    sh = [MemShape("b"), MemShape("b+d"), MemShape("b-d"), MemShape("b+i"), MemShape("d"), MemShape("-d"),
          MemShape("b+d", dstyle="dec"), MemShape("b+i*s-d", 4, dstyle="dec"),
          MemShape("b+i*s", 1), MemShape("b+i*s", 8), MemShape("b+s*i", 2),
          MemShape("s*i", 1), MemShape("s*i", 2), MemShape("s*i", 4),
          MemShape("b+i*s+d", 2), MemShape("b+s*i-d", 8),
          MemShape("s*i+d", 1), MemShape("s*i+d", 8), MemShape("s*i-d", 2), MemShape("s*i-d", 4)]
    return sh


def all_shapes():
    sh = []
    for kind in ALL_SHAPE_KINDS:
        scales = (1, 2, 4, 8) if "s" in kind else (1,)
        styles = ("hex", "dec") if "d" in kind else ("hex",)
        for s in scales:
            for st in styles:
                sh.append(MemShape(kind, s, st))
    return sh


def mem_form(name, fam, mn, xop, vex, opds, shape, kw, osize=None, symmetric=False):
    """opds: list of ('reg', mask, letter) | ('mem', msize C-expr or None->from kw) | ('cl',) | ('imm8',)
    osize: C expression for the operation size check (or None)"""
    sk = Skel("%s.%s%s" % (name, shape.label(), ("." + kw) if kw else ""), fam, mn)
    sk.t(mn + " ")
    checks = []
    n = 0
    memvar = None
    for i, o in enumerate(opds):
        if i:
            sk.t(", ")
        if o[0] == "reg":
            k = sk.reg(o[1], o[2] if len(o) > 2 else "r")
            sk.treg(k)
            checks.append(("reg", n, k))
            n += 1
        elif o[0] == "mem":
            memvar, b, ix = add_mem(sk, shape, kw)
            mem_validity(sk, memvar, shape)
            checks.append(("mem", n, o[1]))
            n += 1
        elif o[0] == "cl":
            sk.t("cl")
            checks.append(("cl", n))
            n += 1
        elif o[0] == "imm8":
            kn = sk.num("$ <= 0x7f")
            sk.tnum(kn, "hex")
            checks.append(("imm8", n, kn))
            n += 1
    chk_op(sk, xop, vex)
    chk_nopd(sk, n)
    if symmetric:
        # xchg r, [m]: the architecture's only form is (r/m, r); either operand order denotes the same exchange
        checks = [(c[0], 1 - c[1]) + tuple(c[2:]) for c in checks]
    for c in checks:
        if c[0] == "reg":
            chk_reg(sk, c[1], c[2])
        elif c[0] == "mem":
            ms = c[2] if c[2] is not None else str(KW_BITS[kw])
            chk_mem(sk, c[1], memvar, ms)
        elif c[0] == "cl":
            sk.post.append('CHECK(D.opd[%d].kind == XK_REG && D.opd[%d].rc == RC_GPR8 && D.opd[%d].num == 1, "count register is cl");' % (c[1], c[1], c[1]))
        elif c[0] == "imm8":
            sk.post.append('CHECK(D.opd[%d].kind == XK_IMM && (D.opd[%d].imm & 0xff) == (long)N%d, "8-bit immediate carries the written value");' % (c[1], c[1], c[2]))
    if osize:
        sk.post.append('CHECK(D.osize == (%s), "operand size as written");' % osize)
        sk.rexw = "(%s) == 64" % osize
    sk.meta["class"] = name
    return sk


def kw_mask(kw):
    return {"byte": G8, "word": G16, "dword": G32, "qword": G64}[kw]


def c02_classes(quick):
    """list of (class name, builder(shape) -> [Skel])"""
    cls = []

    def add(name, fn):
        cls.append((name, fn))

    # integer MR / RM; register gives the size; also with the matching keyword
    def int_mr(mn, xop):
        def fn(sh, kws):
            out = [mem_form("c02.%s.mr" % mn, "int.mr", mn, xop, 0, [("mem", "vf_regsize(R%d)" % rslot(sh)), ("reg", GALL)], sh, None,
                            "vf_regsize(R%d)" % rslot(sh))]
            for kw in kws:
                out.append(mem_form("c02.%s.mr" % mn, "int.mr", mn, xop, 0, [("mem", None), ("reg", kw_mask(kw))], sh, kw, str(KW_BITS[kw])))
            return out
        return fn

    def int_rm(mn, xop, mask=GALL):
        def fn(sh, kws):
            sym = mn == "xchg"
            out = [mem_form("c02.%s.rm" % mn, "int.rm", mn, xop, 0, [("reg", mask), ("mem", "vf_regsize(R0)")], sh, None, "vf_regsize(R0)", symmetric=sym)]
            for kw in kws:
                if mask != GALL and kw == "byte":
                    continue
                out.append(mem_form("c02.%s.rm" % mn, "int.rm", mn, xop, 0, [("reg", kw_mask(kw)), ("mem", None)], sh, kw, str(KW_BITS[kw]), symmetric=sym))
            return out
        return fn

    def rslot(sh):
        return (1 if sh.has_base() else 0) + (1 if sh.has_index() else 0)

    int_mr_list = list(F.ALU.items()) + [("mov", "XOP_MOV"), ("test", "XOP_TEST")]
    int_rm_list = list(F.ALU.items()) + [("mov", "XOP_MOV"), ("xchg", "XOP_XCHG")]
    for mn, xop in (int_mr_list if not quick else [("mov", "XOP_MOV")]):
        add("int.mr." + mn, int_mr(mn, xop))
    for mn, xop in (int_rm_list if not quick else [("add", "XOP_ADD"), ("xchg", "XOP_XCHG")]):
        add("int.rm." + mn, int_rm(mn, xop))
    cm = [("cmov" + s, "(XOP_CMOVCC + %d)" % F.CC[s]) for s in F.CMOV_SUFFIXES]
    for mn, xop in (cm + [("imul", "XOP_IMUL")] if not quick else [("cmovne", "(XOP_CMOVCC + 5)")]):
        add("int.rm." + mn, int_rm(mn, xop, GV))

    # unary M with keyword
    def unary(mn, xop):
        def fn(sh, kws):
            return [mem_form("c02.%s.m" % mn, "int.m", mn, xop, 0, [("mem", None)], sh, kw, str(KW_BITS[kw])) for kw in (kws or ["qword"])]
        return fn
    for mn, xop in (F.UNARY.items() if not quick else [("neg", "XOP_NEG")]):
        add("int.m." + mn, unary(mn, xop))

    def lea(sh, kws):
        return [mem_form("c02.lea.rm", "int.lea", "lea", "XOP_LEA", 0, [("reg", GV), ("mem", "0")], sh, None, "vf_regsize(R0)")]
    add("int.lea", lea)

    def movzx(sh, kws):
        out = []
        for kw in ("byte", "word"):
            sk = mem_form("c02.movzx.rm", "int.movzx", "movzx", "XOP_MOVZX", 0, [("reg", GV), ("mem", None)], sh, kw, "vf_regsize(R0)")
            sk.decl.append("ASSUME(vf_regsize(R0) > %d);" % KW_BITS[kw])
            out.append(sk)
        return out
    add("int.movzx", movzx)

    def byteopd(mn, xop, kwopt):
        def fn(sh, kws):
            return [mem_form("c02.%s.m" % mn, "int.byteopd", mn, xop, 0, [("mem", "8" if mn.startswith("set") else "0")], sh, kw)
                    for kw in kwopt]
        return fn
    sets = [("set" + s, "(XOP_SETCC + %d)" % F.CC[s]) for s in F.SET_SUFFIXES]
    for mn, xop in (sets if not quick else [("setne", "(XOP_SETCC + 5)")]):
        add("int.m." + mn, byteopd(mn, xop, [None, "byte"]))
    for mn, xop in ([("clflush", "XOP_CLFLUSH")] + list(F.PREFETCH.items()) if not quick else [("clflush", "XOP_CLFLUSH")]):
        add("int.m." + mn, byteopd(mn, xop, [None]))

    def push(sh, kws):
        return [mem_form("c02.push.m", "int.push", "push", "XOP_PUSH", 0, [("mem", "64")], sh, kw, "64") for kw in (None, "qword")]
    add("int.push", push)

    def shift_cl(mn, xop):
        def fn(sh, kws):
            return [mem_form("c02.%s.m_cl" % mn, "int.shift", mn, xop, 0, [("mem", None), ("cl",)], sh, kw, str(KW_BITS[kw])) for kw in (kws or ["dword"])]
        return fn
    for mn, xop in (F.SHIFT_CL.items() if not quick else [("shl", "XOP_SHL")]):
        add("int.shiftcl." + mn, shift_cl(mn, xop))

    def shld_cl(sh, kws):
        return [mem_form("c02.shld.mr_cl", "int.shld", "shld", "XOP_SHLD", 0, [("mem", "vf_regsize(R%d)" % rslot(sh)), ("reg", GV), ("cl",)], sh, None,
                         "vf_regsize(R%d)" % rslot(sh))]
    add("int.shld_cl", shld_cl)

    def shxd_imm(mn, xop):
        def fn(sh, kws):
            return [mem_form("c02.%s.mri" % mn, "int.shld", mn, xop, 0, [("mem", "vf_regsize(R%d)" % rslot(sh)), ("reg", GV), ("imm8",)], sh, None,
                             "vf_regsize(R%d)" % rslot(sh))]
        return fn
    add("int.shld_imm", shxd_imm("shld", "XOP_SHLD"))
    if not quick:
        add("int.shrd_imm", shxd_imm("shrd", "XOP_SHRD"))

    # BMI / ADX
    def bmi_rmv(mn, xop):
        def fn(sh, kws):
            sk = mem_form("c02.%s.rmr" % mn, "bmi.rmr", mn, xop, 1, [("reg", GY), ("mem", "vf_regsize(R0)"), ("reg", GY)], sh, None)
            sk.decl.append("ASSUME(vf_regsize(R0) == vf_regsize(R%d));" % (sk.nreg - 1))
            return [sk]
        return fn
    for mn, xop in (F.BMI_RMV.items() if not quick else [("bextr", "XOP_BEXTR")]):
        add("bmi.rmr." + mn, bmi_rmv(mn, xop))

    def mulx(sh, kws):
        sk = mem_form("c02.mulx.rrm", "bmi.rrm", "mulx", "XOP_MULX", 1, [("reg", GY), ("reg", GY), ("mem", "vf_regsize(R0)")], sh, None)
        sk.decl.append("ASSUME(vf_regsize(R0) == vf_regsize(R1));")
        return [sk]
    add("bmi.rrm.mulx", mulx)

    def rorx(sh, kws):
        return [mem_form("c02.rorx.rmi", "bmi.rmi", "rorx", "XOP_RORX", 1, [("reg", GY), ("mem", "vf_regsize(R0)"), ("imm8",)], sh, None)]
    add("bmi.rmi.rorx", rorx)

    def adx(mn, xop):
        def fn(sh, kws):
            return [mem_form("c02.%s.rm" % mn, "adx.rm", mn, xop, 0, [("reg", GY), ("mem", "vf_regsize(R0)")], sh, None)]
        return fn
    for mn, xop in ((("adcx", "XOP_ADCX"), ("adox", "XOP_ADOX")) if not quick else (("adcx", "XOP_ADCX"),)):
        add("adx.rm." + mn, adx(mn, xop))

    # MMX / SSE
    def vec_rm(mn, xop, mask, letter, msize, fam, vex=0):
        def fn(sh, kws):
            return [mem_form("c02.%s.%sm" % (mn, letter), fam, mn, xop, vex, [("reg", mask, letter), ("mem", msize)], sh, None)]
        return fn

    def vec_mr(mn, xop, mask, letter, msize, fam, vex=0):
        def fn(sh, kws):
            return [mem_form("c02.%s.m%s" % (mn, letter), fam, mn, xop, vex, [("mem", msize), ("reg", mask, letter)], sh, None)]
        return fn
    packed = list(F.PACKED_MM_XMM.items())
    for mn, xop in (packed if not quick else [("paddd", "XOP_PADDD")]):
        if mn not in F.XMM_NO_MEM:
            add("sse.rm." + mn, vec_rm(mn, xop, XMM, "x", "128", "sse.rm"))
        add("mmx.rm." + mn, vec_rm(mn, xop, MM, "r", "64", "mmx.rm"))
    for mn, xop in (F.SSE_XMM.items() if not quick else []):
        add("sse.rm." + mn, vec_rm(mn, xop, XMM, "x", "128", "sse.rm"))
    if not quick:
        add("sse.rm.movntdqa", vec_rm("movntdqa", "XOP_MOVNTDQA", XMM, "x", "128", "sse.rm"))
        add("sse.rm.movd", vec_rm("movd", "XOP_MOVD", XMM, "x", "32", "sse.mov"))
    add("sse.mr.movd", vec_mr("movd", "XOP_MOVD", XMM, "x", "32", "sse.mov"))
    add("sse.rm.movq", vec_rm("movq", "XOP_MOVQ", XMM, "x", "64", "sse.mov"))
    add("sse.mr.movq", vec_mr("movq", "XOP_MOVQ", XMM, "x", "64", "sse.mov"))
    add("mmx.mr.movntq", vec_mr("movntq", "XOP_MOVNTQ", MM, "r", "64", "mmx.mr"))

    # AVX
    def avx_rvm(mn, xop, mask, letter, msize):
        def fn(sh, kws):
            return [mem_form("c02.%s.%s%sm" % (mn, letter, letter), "avx.rvm", mn, xop, 1,
                             [("reg", mask, letter), ("reg", mask, letter), ("mem", msize)], sh, None)]
        return fn
    for mn, xop in (F.AVX_YMM_ONLY.items() if not quick else []):
        add("avx.rvm." + mn, avx_rvm(mn, xop, YMM, "y", "256"))
    for mn, xop in (F.AVX_BOTH.items() if not quick else [("vpaddd", "XOP_PADDD")]):
        add("avx.rvm.y." + mn, avx_rvm(mn, xop, YMM, "y", "256"))
        add("avx.rvm.x." + mn, avx_rvm(mn, xop, XMM, "x", "128"))
    for mn, xop in (F.AVX_MOV.items() if not quick else [("vmovdqu", "XOP_MOVDQU")]):
        add("avx.rm.y." + mn, vec_rm(mn, xop, YMM, "y", "256", "avx.rm", 1))
        add("avx.mr.y." + mn, vec_mr(mn, xop, YMM, "y", "256", "avx.mr", 1))
        if not quick:
            add("avx.rm.x." + mn, vec_rm(mn, xop, XMM, "x", "128", "avx.rm", 1))
        add("avx.mr.x." + mn, vec_mr(mn, xop, XMM, "x", "128", "avx.mr", 1))

    def perm2(mn, xop):
        def fn(sh, kws):
            return [mem_form("c02.%s.yymi" % mn, "avx.rvmi", mn, xop, 1, [("reg", YMM, "y"), ("reg", YMM, "y"), ("mem", "256"), ("imm8",)], sh, None)]
        return fn
    for mn, xop in (F.AVX_PERM2.items() if not quick else [("vperm2i128", "XOP_PERM2I128")]):
        add("avx.rvmi." + mn, perm2(mn, xop))
    return cls


C02_DEEP_CLASSES = ("int.mr.mov", "int.rm.add", "int.lea", "int.m.neg")


def c02_families(quick, pool=False):
    """quick: a reduced class list x 20 shapes, one keyword rotated over the shapes.
    thorough: every class x the 20 shapes with all four keywords, and every
    shape (all kinds x scales x displacement spellings) for the classes in
    C02_DEEP_CLASSES plus the first vector and VEX class (the addressing code is
    shared by all classes; what differs per class is checked on the 20 shapes)."""
    out = []
    qs, al = quick_shapes(), None
    deep_extra = set()
    for ci, (cname, fn) in enumerate(c02_classes(quick)):
        if quick:
            # every class on a rotating fifth of the 20 shapes (so each shape is met by many classes), the
            # classes of C02_DEEP_CLASSES and the first class of each vector family on all 20
            deep = pool or cname in ("int.mr.mov", "int.lea")
            if cname.startswith("avx.") and "avx." not in deep_extra:
                deep_extra.add("avx.")
                deep = True
            shapes = qs if deep else [sh for i, sh in enumerate(qs) if (i + ci) % 5 == 0]
        else:
            deep = cname in C02_DEEP_CLASSES
            for pre in ("sse.", "avx.", "mmx.", "bmi."):
                if cname.startswith(pre) and pre not in deep_extra:
                    deep_extra.add(pre)
                    deep = True
            if deep and al is None:
                al = all_shapes()
            shapes = al if deep else qs
            # the condition-code families share one table-row pattern per family: every member on a third of the shapes
            if not deep and re.match(r"int\.(rm\.cmov|m\.set)", cname) and cname not in ("int.rm.cmovne", "int.m.setne"):
                shapes = qs[(len(out) % 3)::3]
        for i, sh in enumerate(shapes):
            if pool:
                kws = [["byte", "word", "dword", "qword"][i % 4]] if i % 3 == 0 else []
            elif quick or not deep:
                kws = [["byte", "word", "dword", "qword"][(i + ci) % 4]] if (i + ci) % 3 == 0 else []
            else:
                kws = ["byte", "word", "dword", "qword"]
            out += fn(sh, kws)
    if quick and not pool:
        # the regions of the open findings stay represented in the per-change tier (each is re-confirmed on every run)
        have = {sk.name for sk in out}
        out += [sk for sk in c02_families(True, pool=True) if sk.name in C02_QUICK_EXTRA and sk.name not in have]
    return out


C02_QUICK_EXTRA = ("c02.shl.m_cl.d_s1_hex.dword", "c02.shl.m_cl.md_s1_hex.dword", "c02.neg.m.b_s1_hex.qword", "c02.movzx.rm.bpd_s1_dec.word")


# ---------------------------------------------------------------------------
# C03: immediates

SPELLINGS = [("hex", False), ("hex", True), ("dec", False), ("dec", True), ("hex16", False)]


def imm_num(sk, style, neg):
    """bind a literal; returns (k, C expr of the written 64-bit pattern)"""
    k = sk.num()
    w = "(0ul - N%d)" % k if neg else "N%d" % k
    if neg:
        # -N is the written value: keep it representable in 64 bits
        sk.decl.append("ASSUME(N%d <= (1ul << 63));" % k)
    return k, w


def c03_dest_variants(quick):
    """destination kinds: ('reg', mask) or ('mem', kw, shape)"""
    v = [("reg", None)]
    if quick:
        v += [("mem", "qword", MemShape("b+i*s", 2)), ("mem", "byte", MemShape("b")), ("mem", "dword", MemShape("b+d")),
              ("mem", "word", MemShape("b-d"))]
    else:
        for kw in ("byte", "word", "dword", "qword"):
            for sh in (MemShape("b"), MemShape("b+d"), MemShape("b+i*s-d", 4), MemShape("s*i", 8), MemShape("d")):
                v.append(("mem", kw, sh))
    return v


def c03_imm_form(mn, xop, dest, style, neg, kind):
    """kind: alu (imm8s/imm16/32, sext for 64), test (no imm8s; same value rule), movi, shift (count), """
    dname = "r" if dest[0] == "reg" else "m_%s_%s" % (dest[1], dest[2].label())
    sk = Skel("c03.%s.%s.%s%s" % (mn, dname, "neg" if neg else "", style), "imm." + kind, mn)
    sk.t(mn + " ")
    if dest[0] == "reg":
        mask = GALL
        r = sk.reg(mask)
        sk.treg(r)
        size = "vf_regsize(R%d)" % r
        memvar = None
    else:
        memvar, b, ix = add_mem(sk, dest[2], dest[1])
        mem_validity(sk, memvar, dest[2])
        size = str(KW_BITS[dest[1]])
    sk.t(", ")
    k, w = imm_num(sk, style, neg)
    sk.tnum(k, style, neg)
    sk.decl.append("unsigned long WV = %s; int OSZ = %s;" % (w, size))
    chk_op(sk, xop)
    chk_nopd(sk, 2)
    if dest[0] == "reg":
        chk_reg(sk, 0, 0)
    else:
        chk_mem(sk, 0, memvar, "OSZ")
    sk.rexw = "OSZ == 64"
    if kind in ("alu", "test", "movm"):
        sk.decl.append("ASSUME(vf_representable(WV, OSZ, 1));")
        sk.post.append('CHECK(D.osize == OSZ, "operand size as written");')
        sk.post.append('CHECK(vf_chk_imm(&D.opd[1], WV, OSZ), "immediate field, after the architecture\'s extension, equals the written value at the operand width");')
    elif kind == "shift":
        sk.decl.append("ASSUME(WV <= 0xff && WV != 1);")
        sk.post.append('CHECK(D.osize == OSZ, "operand size as written");')
        sk.post.append('CHECK(D.opd[1].kind == XK_IMM && (D.opd[1].imm & 0xff) == (long)WV, "shift count equals the written value");')
    return sk


def c03_mov_r64(style, neg):
    """mov r64, v: the architectural effect on the 64-bit register is v, in
    whichever of the three encodings the mode selects"""
    sk = Skel("c03.mov.r64.%s%s" % ("neg" if neg else "", style), "imm.mov64", "mov")
    r = sk.reg(G64)
    k, w = imm_num(sk, style, neg)
    sk.t("mov ").treg(r).t(", ").tnum(k, style, neg)
    sk.decl.append("unsigned long WV = %s;" % w)
    sk.want = "XOP_MOV"
    sk.post.append('CHECK(D.op == XOP_MOV && D.nopd == 2 && D.opd[0].kind == XK_REG && D.opd[0].num == R0.num, "mov to the written register number");')
    sk.post.append('CHECK(D.opd[1].kind == XK_IMM, "immediate source");')
    sk.post.append('unsigned long effect = D.opd[0].rc == RC_GPR64 ? (unsigned long)D.opd[1].imm '
                   ': (unsigned long)(uint32_t)D.opd[1].imm;')
    sk.post.append('CHECK(D.opd[0].rc == RC_GPR64 || D.opd[0].rc == RC_GPR32, "destination is the 64-bit register or its zero-extending 32-bit half");')
    sk.post.append('CHECK(effect == WV, "executing the emitted mov leaves the written 64-bit value in the register");')
    sk.meta["mov64"] = True
    return sk


def c03_mov_small(style, neg):
    sk = Skel("c03.mov.r.%s%s" % ("neg" if neg else "", style), "imm.mov", "mov")
    r = sk.reg("(CM_GPR8ALL | CM(RC_GPR16) | CM(RC_GPR32))")
    k, w = imm_num(sk, style, neg)
    sk.t("mov ").treg(r).t(", ").tnum(k, style, neg)
    sk.decl.append("unsigned long WV = %s; int OSZ = vf_regsize(R0);" % w)
    sk.decl.append("ASSUME(vf_representable(WV, OSZ, 0));")
    chk_op(sk, "XOP_MOV"); chk_nopd(sk, 2); chk_reg(sk, 0, r)
    sk.post.append('CHECK(D.osize == OSZ, "operand size as written");')
    sk.post.append('CHECK(vf_chk_imm(&D.opd[1], WV, OSZ), "immediate equals the written value at the operand width");')
    return sk


def c03_families(quick):
    out = []
    spell = [("hex", False), ("hex", True), ("dec", False)] if quick else SPELLINGS
    dests = c03_dest_variants(quick)
    alu = list(F.ALU.items())
    for mn, xop in alu:
        for d in (dests if (not quick or mn in ("add", "and", "cmp")) else dests[:2]):
            for st, neg in (spell if (not quick or mn in ("add", "and")) else spell[:2]):
                out.append(c03_imm_form(mn, xop, d, st, neg, "alu"))
    for d in dests:
        for st, neg in spell:
            out.append(c03_imm_form("test", "XOP_TEST", d, st, neg, "test"))
            if d[0] == "mem":
                out.append(c03_imm_form("mov", "XOP_MOV", d, st, neg, "movm"))
    for st, neg in SPELLINGS:
        out.append(c03_mov_r64(st, neg))
        out.append(c03_mov_small(st, neg))
    shifts = list(F.SHIFT_IMM.items())
    for mn, xop in shifts:
        for d in (dests if (not quick or mn == "shl") else dests[:2]):
            out.append(c03_imm_form(mn, xop, d, "hex", False, "shift"))
            if not quick or mn == "shl":
                out.append(c03_imm_form(mn, xop, d, "dec", False, "shift"))
    out.append(c03_imm_form("ror", "XOP_ROR", ("reg", None), "hex", False, "shift"))
    # three-operand forms with imm
    for st, neg in spell:
        sk = Skel("c03.imul.rri.%s%s" % ("neg" if neg else "", st), "imm.imul", "imul")
        a = sk.reg(GV); b = sk.reg(GV); same_size(sk, a, b)
        k, w = imm_num(sk, st, neg)
        sk.t("imul ").treg(a).t(", ").treg(b).t(", ").tnum(k, st, neg)
        sk.decl.append("unsigned long WV = %s; int OSZ = vf_regsize(R0);" % w)
        sk.decl.append("ASSUME(vf_representable(WV, OSZ, 1));")
        chk_op(sk, "XOP_IMUL"); chk_nopd(sk, 3); chk_reg(sk, 0, a); chk_reg(sk, 1, b); chk_osize_reg(sk, a)
        sk.post.append('CHECK(vf_chk_imm(&D.opd[2], WV, OSZ), "immediate equals the written value at the operand width");')
        out.append(sk)
        for sh in ([MemShape("b+i*s+d", 4)] if quick else [MemShape("b"), MemShape("b+i*s+d", 4), MemShape("s*i", 2)]):
            sk = Skel("c03.imul.rmi.%s.%s%s" % (sh.label(), "neg" if neg else "", st), "imm.imul", "imul")
            a = sk.reg(GV)
            sk.t("imul ").treg(a).t(", ")
            mv, b_, i_ = add_mem(sk, sh, None)
            mem_validity(sk, mv, sh)
            k, w = imm_num(sk, st, neg)
            sk.t(", ").tnum(k, st, neg)
            sk.decl.append("unsigned long WV = %s; int OSZ = vf_regsize(R0);" % w)
            sk.decl.append("ASSUME(vf_representable(WV, OSZ, 1));")
            chk_op(sk, "XOP_IMUL"); chk_nopd(sk, 3); chk_reg(sk, 0, a); chk_mem(sk, 1, mv, "OSZ"); chk_osize_reg(sk, a)
            sk.post.append('CHECK(vf_chk_imm(&D.opd[2], WV, OSZ), "immediate equals the written value at the operand width");')
            out.append(sk)
        # push imm (64-bit push, imm8/imm32 sign-extended)
        sk = Skel("c03.push.i.%s%s" % ("neg" if neg else "", st), "imm.push", "push")
        k, w = imm_num(sk, st, neg)
        sk.t("push ").tnum(k, st, neg)
        sk.decl.append("unsigned long WV = %s;" % w)
        sk.decl.append("ASSUME(vf_representable(WV, 64, 1));")
        chk_op(sk, "XOP_PUSH"); chk_nopd(sk, 1)
        sk.post.append('CHECK(D.osize == 64, "64-bit push");')
        sk.post.append('CHECK(vf_chk_imm(&D.opd[0], WV, 64), "pushed immediate, sign-extended, equals the written value");')
        out.append(sk)
    for mn, xop in (("shld", "XOP_SHLD"), ("shrd", "XOP_SHRD")):
        for st in ("hex", "dec"):
            sk = Skel("c03.%s.rri.%s" % (mn, st), "imm.shld", mn)
            a = sk.reg(GV); b = sk.reg(GV); same_size(sk, a, b)
            k, w = imm_num(sk, st, False)
            sk.t(mn + " ").treg(a).t(", ").treg(b).t(", ").tnum(k, st, False)
            sk.decl.append("ASSUME(N%d <= 0xff);" % k)
            chk_op(sk, xop); chk_nopd(sk, 3); chk_reg(sk, 0, a); chk_reg(sk, 1, b); chk_osize_reg(sk, a)
            sk.post.append('CHECK(D.opd[2].kind == XK_IMM && D.opd[2].immw == 8 && (D.opd[2].imm & 0xff) == (long)N%d, "8-bit count equals the written value");' % k)
            out.append(sk)
    for st in ("hex", "dec"):
        sk = Skel("c03.xabort.i.%s" % st, "imm.xabort", "xabort")
        k, w = imm_num(sk, st, False)
        sk.t("xabort ").tnum(k, st, False)
        sk.decl.append("ASSUME(N%d <= 0xff);" % k)
        chk_op(sk, "XOP_XABORT"); chk_nopd(sk, 1)
        sk.post.append('CHECK(D.opd[0].kind == XK_IMM && (D.opd[0].imm & 0xff) == (long)N%d, "8-bit immediate equals the written value");' % k)
        out.append(sk)
    return out


# ---------------------------------------------------------------------------
# C05: relative branches, indirect branches

def c05_rel(mn, xop, kwd, style, neg, has_rel8, has_rel32):
    sk = Skel("c05.%s.%s.%s%s" % (mn, kwd or "nokw", "neg" if neg else "", style), "branch.rel", mn)
    k = sk.num()
    sk.t(mn + " ")
    if kwd:
        sk.t(kwd + " ")
    sk.tnum(k, style, neg)
    sk.decl.append("unsigned long WV = %s; long d = (long)WV;" % ("(0ul - N%d)" % k if neg else "N%d" % k))
    # the written value is the mathematical integer +-N; beyond 2^63 the two's complement reading differs: keep |d| < 2^62
    sk.decl.append("ASSUME(N%d < (1ul << 62));" % k)
    in8 = "(d >= -128 && d <= 127)"
    in32 = "(d >= -2147483648l && d <= 2147483647l)"
    acc = []
    acc.append("  if (rc == EXIT_SUCCESS) {")
    acc.append('    CHECK(end > start && end - start <= 15, "offset advanced by the instruction length");')
    acc.append("    struct xinsn D;")
    acc.append("    int n = x86dec_want(vf_buf + start, end - start, &D, %s);" % xop)
    acc.append('    CHECK(n == end - start, "the emitted bytes are exactly one instruction of the written operation");')
    acc.append("    if (n == end - start) {")
    acc.append('      CHECK(D.op == %s && D.nopd == 1 && D.opd[0].kind == XK_REL, "relative form of the written operation");' % xop)
    acc.append('      CHECK(D.opd[0].imm == d, "displacement field equals the written displacement (no wrap-around)");')
    if kwd == "long":
        acc.append('      CHECK(D.opd[0].immw == 32, "long forces the rel32 form");')
    if kwd == "short":
        acc.append('      CHECK(D.opd[0].immw == 8, "short selects the rel8 form");')
    acc.append("    }")
    acc.append("    vf_frame_check(al, start, end, rc);")
    acc.append("  } else {")
    acc.append('    CHECK(rc == EXIT_FAILURE, "documented return value");')
    # when must it be accepted?
    must = None
    if kwd is None:
        must = in32 if has_rel32 else in8
    elif kwd == "long":
        must = in32 if has_rel32 else None
    elif kwd == "short":
        must = in8 if has_rel8 else None
    if must:
        acc.append('    CHECK(!(%s), "a representable displacement is accepted");' % must)
    acc.append("    vf_frame_check(al, start, start, rc);")
    acc.append("  }")
    # when must it be rejected?
    if kwd == "short" or not has_rel32:
        acc.append('  if (!%s) CHECK(rc == EXIT_FAILURE, "rel8 would wrap: the line is rejected");' % in8)
    sk.accept = "\n".join(acc)
    sk.want = xop
    return sk


def c05_families(quick):
    out = []
    spell = [("hex", False), ("hex", True), ("dec", False), ("dec", True)]
    ops = [("jmp", "XOP_JMP", True, True)] + [("j" + s, "(XOP_JCC + %d)" % F.CC[s], True, True) for s in F.JCC_SUFFIXES + ["be"]]
    for mn, xop, r8, r32 in ops:
        for ki, kwd in enumerate((None, "short", "long")):
            if not quick or mn in ("jmp", "jne"):
                sp = spell
            elif mn == "jbe":
                sp = spell[:2]
            else:
                # the other condition codes share their rows' pattern: one spelling per keyword, alternating the sign
                sp = [spell[(ki + len(out)) % 2]]
            for st, neg in sp:
                out.append(c05_rel(mn, xop, kwd, st, neg, r8, r32))
    for st, neg in spell:
        out.append(c05_rel("call", "XOP_CALL", None, st, neg, False, True))
        out.append(c05_rel("jrcxz", "XOP_JRCXZ", None, st, neg, True, False))
        out.append(c05_rel("jrcxz", "XOP_JRCXZ", "short", st, neg, True, False))
        out.append(c05_rel("xbegin", "XOP_XBEGIN", None, st, neg, False, True))
    # indirect: register
    for mn, xop in (("jmp", "XOP_JMP"), ("call", "XOP_CALL")):
        sk = Skel("c05.%s.r" % mn, "branch.ind", mn)
        a = sk.reg(G64)
        sk.t(mn + " ").treg(a)
        chk_op(sk, xop); chk_nopd(sk, 1); chk_reg(sk, 0, a)
        sk.post.append('CHECK(!D.far && D.osize == 64, "near indirect branch through a 64-bit register");')
        out.append(sk)
        shapes = quick_shapes() if quick else all_shapes()
        if quick:     # (the addressing code is C02's subject; here the shapes with and without SIB / displacement, and no base)
            shapes = [sh for i, sh in enumerate(shapes) if i % 3 == (0 if mn == "jmp" else 1) or sh.kind in ("b", "b+i*s+d")]
        for sh in shapes:
            for kw in (None, "qword"):
                if quick and kw and sh.kind not in ("b", "b+i*s+d"):
                    continue
                sk = mem_form("c05.%s.m" % mn, "branch.ind", mn, xop, 0, [("mem", "64")], sh, kw)
                sk.post.append('CHECK(!D.far, "near indirect branch");')
                out.append(sk)
            fars = [("far", "80"), ("far qword", "80"), ("far dword", "48"), ("far word", "32")]
            for kw, ms in (fars if not quick or sh.kind in ("b", "b+d", "b+i*s") else fars[:1]):
                sk = mem_form("c05.%s.mfar" % mn, "branch.far", mn, xop, 0, [("mem", ms)], sh, kw)
                sk.post.append('CHECK(D.far, "far indirect branch");')
                out.append(sk)
    return out


# ---------------------------------------------------------------------------
# C11: modes change only the documented forms

def c11_mov64(style, neg):
    sk = c03_mov_r64(style, neg)
    sk.name = "c11.mov64.%s%s" % ("neg" if neg else "", style)
    sk.family = "mode.mov64"
    narrowable = "(WV <= 0xfffffffful)"
    hex16 = "1" if style == "hex16" else "0"
    # which mode is in effect for this spelling
    sk.post.append("int narrowed = D.opd[0].rc == RC_GPR32;")
    sk.post.append('if (vf_opt_mv == 1) CHECK(narrowed == %s, "NASM: narrowed to the 32-bit destination exactly when 0 <= imm <= 0xffffffff");' % narrowable)
    sk.post.append('if (vf_opt_mv == 0) CHECK(!narrowed, "STRICT: the 64-bit destination is always kept");')
    sk.post.append('if (vf_opt_mv == 2) CHECK(narrowed == (%s && !%s), "SMART: narrowing is suppressed exactly for hexadecimal literals written with all 16 digits");' % (narrowable, hex16))
    return sk


def c11_sib(quick):
    out = []
    # [base+rsp] / [base+esp] under the swap option; no-base shapes under the no-base option
    classes = [("lea", "XOP_LEA", [("reg", GV), ("mem", "0")], None),
               ("mov", "XOP_MOV", [("mem", "vf_regsize(R%d)"), ("reg", GALL)], None),
               ("paddd", "XOP_PADDD", [("reg", XMM, "x"), ("mem", "128")], None),
               ("vpaddd", "XOP_PADDD", [("reg", YMM, "y"), ("reg", YMM, "y"), ("mem", "256")], 1)]
    for mn, xop, opds, vex in classes:
        for sh in [MemShape("b+i"), MemShape("b+i*s+d", 1) if False else MemShape("b+d")][:1]:
            o2 = [tuple(x) for x in opds]
            if mn == "mov":
                o2 = [("mem", "vf_regsize(R2)"), ("reg", GALL)]
            sk = mem_form("c11.swap.%s" % mn, "mode.sib", mn, xop, vex or 0, o2, sh, None)
            sk.decl.append("ASSUME(M.index.num == 4);")    # the stack pointer written as index
            sk.post.append('if (vf_opt_sw == 1) CHECK(D.opd[%d].has_base && D.opd[%d].base == 4 && D.opd[%d].has_index && D.opd[%d].index == M.base.num && D.opd[%d].scale == 1, '
                           '"NASM swap: the stack pointer becomes the base, the written base the index");' % ((_memidx(o2),) * 5))
            out.append(sk)
        for kind, scales in (("s*i", (1, 2, 4, 8)), ("s*i+d", (1, 2, 8)), ("s*i-d", (2, 4))):
            for sc in scales:
                sh = MemShape(kind, sc)
                o2 = [tuple(x) for x in opds]
                if mn == "mov":
                    o2 = [("mem", "vf_regsize(R1)"), ("reg", GALL)]
                sk = mem_form("c11.nobase.%s" % mn, "mode.sib", mn, xop, vex or 0, o2, sh, None)
                mi = _memidx(o2)
                sk.post.append('if (vf_opt_nb == 0) CHECK(!D.opd[%d].has_base && D.opd[%d].has_index && D.opd[%d].index == M.index.num && D.opd[%d].scale == %d, '
                               '"STRICT no-base: index and scale are encoded literally, without base");' % (mi, mi, mi, mi, sc))
                out.append(sk)
        if quick and mn in ("paddd",):
            pass
    return out


def _memidx(opds):
    for i, o in enumerate(opds):
        if o[0] == "mem":
            return i
    return 0


def c11_pairs(quick):
    """non-interference: every line that is not mode-sensitive assembles to
    identical bytes under any two option combinations"""
    out = []
    reps = []
    c1 = c01_families(quick)
    c4 = c04_families(quick)
    c5 = [s for s in c05_families(quick) if s.family == "branch.rel"]
    c3 = [s for s in c03_families(quick) if not s.meta.get("mov64")]
    c2 = c02_families(quick, pool=quick)

    def insensitive(s):
        # memory shapes that the SIB options touch
        for m in s.meta.get("mem", []):
            if m["shape"] in ("b+i",) or m["shape"].startswith("s*i"):
                return False
        return True
    if quick:
        pick1 = [s for s in c1 if s.name in ("c01.add.rr", "c01.mov.rr", "c01.xchg.rr", "c01.movzx.rr", "c01.imul.rr", "c01.neg.r", "c01.push.r",
                                             "c01.setne.r", "c01.shl.r_cl", "c01.shr.r_1", "c01.shld.rr_cl", "c01.ret", "c01.nop7", "c01.cmovne.rr")]
        pick4 = [s for s in c4 if s.name in ("c04.paddd.xx", "c04.paddd.mm", "c04.movq.x_r64", "c04.vpaddd.yyy", "c04.vmovdqu.xx", "c04.vperm2i128.yyyi",
                                             "c04.mulx.rrr", "c04.rorx.rri", "c04.adcx.rr", "c04.psrldq.xi")]
        pick5 = [s for s in c5 if s.name.startswith(("c05.jmp.", "c05.jne.nokw", "c05.call.", "c05.jrcxz.nokw"))]
        pick3 = [s for s in c3 if s.name.startswith(("c03.add.r.", "c03.and.m_", "c03.test.r.", "c03.mov.r.", "c03.mov.m_dword", "c03.shl.r.", "c03.imul.rri", "c03.push.i"))]
        seen = set()
        pick2 = []
        for s in c2:
            if not insensitive(s):
                continue
            cl = s.meta.get("class")
            key = (cl, s.meta["mem"][0]["shape"])
            if cl in ("c02.mov.mr", "c02.add.rm", "c02.lea.rm", "c02.paddd.xm", "c02.vpaddd.yym", "c02.bextr.rmr", "c02.push.m") and key not in seen and \
                    s.meta["mem"][0]["shape"] in ("b", "b+d", "b+i*s", "b+i*s+d", "d"):
                seen.add(key)
                pick2.append(s)
        # per-change tier: one spelling per branch form, every second immediate form, every second memory shape
        pick5 = [s for s in pick5 if s.name.endswith((".hex", ".neghex")) and not s.name.startswith(("c05.jmp.long", "c05.jrcxz.nokw.neghex"))][:8]
        pick3 = [s for s in pick3 if not s.name.endswith(".dec")][::2]
        pick2 = pick2[::2] if len(pick2) > 18 else pick2
        reps = pick1 + pick4 + pick5 + pick3 + pick2
    else:
        reps = c1 + c4 + c5 + c3 + [s for s in c2 if insensitive(s)][::7]
    for s in reps:
        if not insensitive(s):
            continue
        s.pair = True
        s.name = "c11.pair." + s.name
        s.family = "mode.pair"
        out.append(s)
    return out


def c11_families(quick):
    out = []
    for st, neg in SPELLINGS:
        out.append(c11_mov64(st, neg))
    out += c11_sib(quick)
    out += c11_pairs(quick)
    return out


# ---------------------------------------------------------------------------
# C10: malformed or unencodable lines are rejected (text level)

def _reject(name, parts_fn, fam="reject"):
    sk = Skel(name, fam, name.split(".")[1])
    parts_fn(sk)
    sk.expect_fail = True
    return sk


def c10_families(quick, kinds_table):
    out = []

    def opnd(sk, kind):
        if kind == "r":
            k = sk.reg(GALL); sk.treg(k)
        elif kind == "v":
            k = sk.reg(XMM, "x"); sk.treg(k)
        elif kind == "y":
            k = sk.reg(YMM, "y"); sk.treg(k)
        elif kind == "m":
            k = sk.reg(G64); sk.t("[").treg(k).t("]")
        else:
            k = sk.num("$ < 0x7f"); sk.tnum(k, "hex")

    import itertools
    all_tuples = [""] + ["".join(t) for n in (1, 2, 3) for t in itertools.product("rvymi", repeat=n)]
    mns = sorted(kinds_table)
    if quick:
        mns = ["add", "mov", "lea", "imul", "push", "jmp", "shl", "setne", "cmovne", "clflush", "movzx", "xchg", "ret", "nop", "nop5",
               "paddd", "movq", "movd", "psrldq", "pmulld", "vpaddd", "vmovdqu", "vperm2i128", "vaddpd", "bextr", "mulx", "rorx", "adcx",
               "shld", "test", "neg", "movntq", "cvtdq2pd", "jrcxz", "xabort"]
    for mn in mns:
        valid = set(kinds_table[mn])
        invalid = [t for t in all_tuples if t not in valid]
        # operand after an immediate is its own sub-claim; here kinds only
        inv = [t for t in invalid if "i" not in t[:-1]]
        # quick: a spread of three invalid tuples per mnemonic, thorough: all up to 2 operands + a spread of 3-operand ones
        if quick:
            pick = inv[:: max(1, len(inv) // 3)][:3]
        else:
            pick = [t for t in inv if len(t) <= 2] + inv[len([t for t in inv if len(t) <= 2])::9]
        for t in pick:
            def build(sk, mn=mn, t=t):
                sk.t(mn)
                for i, kd in enumerate(t):
                    sk.t(" " if i == 0 else ", ")
                    opnd(sk, kd)
            out.append(_reject("c10.%s.kinds_%s" % (mn, t or "none"), build, "reject.kinds"))
    # the lookup's operand format `n` covers "no operand" and "one immediate" alike; which of the two a mnemonic takes is
    # decided after the lookup in line_to_instr: both cases for every mnemonic through the whole pipeline (the lookup-level
    # unit tok_kinds.c mirrors that rule and relies on these queries for it)
    have = {sk.name for sk in out}
    for mn in sorted(kinds_table):
        valid = set(kinds_table[mn])
        for t in ("", "i"):
            nm = "c10.%s.kinds_%s" % (mn, t or "none")
            if t in valid or nm in have:
                continue

            def build(sk, mn=mn, t=t):
                sk.t(mn)
                if t:
                    sk.t(" ")
                    opnd(sk, "i")
            out.append(_reject(nm, build, "reject.kinds"))
    # operand after an immediate
    for mn, tail in (("add", ", {r}"), ("mov", ", {i}"), ("imul", ", {r}"), ("push", ", {r}"), ("rorx", ", {r}")):
        def build(sk, mn=mn, tail=tail):
            sk.t(mn + " ")
            if mn not in ("push",):
                opnd(sk, "r"); sk.t(", ")
            if mn in ("imul", "rorx"):
                opnd(sk, "r"); sk.t(", ")
            opnd(sk, "i"); sk.t(", ")
            opnd(sk, "r" if "{r}" in tail else "i")
        out.append(_reject("c10.%s.after_imm" % mn, build, "reject.after_imm"))
    # empty operands
    for nm, text in (("lead", "add , {r}"), ("mid", "add {r},, {r}"), ("trail", "add {r},"), ("trail2", "add {r}, "), ("only", "add ,"),
                     ("mid3", "shld {r}, , cl")):
        def build(sk, text=text):
            for piece in text.replace("{r}", "\0R\0").split("\0"):
                if piece == "R":
                    opnd(sk, "r")
                elif piece:
                    sk.t(piece)
        out.append(_reject("c10.add.empty_%s" % nm, build, "reject.empty"))
    # unknown mnemonics / register names (concrete spellings, real str_to_reg)
    for nm, text in (("mn1", "addd rax, rcx"), ("mn2", "foo"), ("mn3", "mo rax, rcx"), ("mn4", "vpaddx ymm0, ymm1, ymm2"), ("mn5", "nop12"),
                     ("reg1", "add rax, rcy"), ("reg2", "mov eaxx, 1"), ("reg3", "add rax, r16"), ("reg4", "paddd xmm16, xmm0"),
                     ("reg5", "paddd xmm100, xmm0"), ("reg6", "vpaddd ymm0, ymm1, ymm16"), ("reg7", "mov rax, [rcz]"),
                     ("reg8", "mov rax, [rax+rcz*2]"), ("reg9", "add r8q, rax"), ("reg10", "mov ah1, 1"), ("reg11", "inc r10l"),
                     ("reg12", "movq mm8, rax")):
        out.append(_reject("c10.name.%s" % nm, lambda sk, text=text: sk.t(text), "reject.names"))
    # invalid memory expressions
    for nm, text in (("unclosed", "mov {r}, [{a}"), ("unclosed2", "mov [{a}+0x10, {r}"), ("unclosed3", "lea {r}, [{a}+{b}*2"),
                     ("scale3", "lea {r}, [{a}+{b}*3]"), ("scale0", "lea {r}, [{a}+{b}*0]"), ("scale5", "lea {r}, [{a}+{b}*5]"),
                     ("scale6", "lea {r}, [{a}+6*{b}]"), ("scale7", "lea {r}, [7*{b}]"), ("scale9", "lea {r}, [{a}+{b}*9]"),
                     ("scale16", "lea {r}, [{a}+{b}*16]"), ("scale12", "lea {r}, [12*{b}+0x10]"), ("scale10", "mov [{a}+{b}*10], {r}")):
        def build(sk, text=text):
            regs = {}
            for piece in text.replace("{r}", "\0r\0").replace("{a}", "\0a\0").replace("{b}", "\0b\0").split("\0"):
                if piece in ("r", "a", "b"):
                    if piece not in regs:
                        regs[piece] = sk.reg(GV if piece == "r" else G64)
                    sk.treg(regs[piece])
                elif piece:
                    sk.t(piece)
        out.append(_reject("c10.mem.%s" % nm, build, "reject.mem"))
    # the stack pointer as scaled index, or as base and index
    for nm, text, cond in (("sp_scaled", "lea {r}, [{a}+{b}*2]", "R2.num == 4"),
                           # (not "[a+rsp*1]": with scale 1 the sum is commutative, nasm and the library encode it as [rsp+a], the same address)
                           ("sp_scaled_first", "lea {r}, [{a}+4*{b}]", "R2.num == 4"), ("sp_nobase", "lea {r}, [8*{b}]", "R1.num == 4"),
                           ("sp_both", "lea {r}, [{a}+{b}]", "R1.num == 4 && R2.num == 4"),
                           ("sp_scaled_mov", "mov [{a}+{b}*8+0x10], {r}", "R1.num == 4")) + \
            (() if False else
             # the same on the other operand encodings (SSE RM, VEX RVM, BMI RMV / RVM) -- round-3 seed
             # c10-vex-three-opd-rsp-index-accepted showed that the rejection can be lost on one encoding path only
             (("sp_scaled_sse", "paddd xmm9, [{a}+{b}*2]", "R1.num == 4"), ("sp_scaled_vex", "vpaddd ymm8, ymm9, [{a}+{b}*2]", "R1.num == 4"),
              ("sp_scaled_bmi_rmv", "bextr r10, [{a}+4*{b}], r11", "R1.num == 4"), ("sp_both_bmi_rvm", "mulx r10, r11, [{a}+{b}]", "R0.num == 4 && R1.num == 4"),
              ("sp_nobase_vex", "vpaddd ymm8, ymm9, [8*{b}]", "R0.num == 4"), ("sp_scaled_push", "push qword [{a}+{b}*2]", "R1.num == 4"))):
        def build(sk, text=text, cond=cond):
            regs = {}
            for piece in text.replace("{r}", "\0r\0").replace("{a}", "\0a\0").replace("{b}", "\0b\0").split("\0"):
                if piece in ("r", "a", "b"):
                    if piece not in regs:
                        regs[piece] = sk.reg(GV if piece == "r" else "(CM(RC_GPR64) | CM(RC_GPR32))")
                    sk.treg(regs[piece])
                elif piece:
                    sk.t(piece)
            if "a" in regs and "b" in regs:
                sk.decl.append("ASSUME(R%d.rc == R%d.rc);" % (regs["a"], regs["b"]))
            sk.decl.append("ASSUME(%s);" % cond)
        out.append(_reject("c10.mem.%s" % nm, build, "reject.mem"))
    return out


# ---------------------------------------------------------------------------
# C16 (number base): the same value spelled differently gives the same bytes

def _respell(parts, style_map):
    out = []
    for p in parts:
        if p[0] == "n":
            out.append(("n", p[1], style_map.get(p[2], p[2]), p[3]))
        else:
            out.append(p)
    return out


def c16_base_families(quick):
    out = []
    seeds = []
    seeds += [s for s in c03_families(True) if s.name in (
        "c03.add.r.hex", "c03.and.m_dword_bpd_s1_hex.hex", "c03.test.r.hex", "c03.mov.r.hex", "c03.mov.r64.hex", "c03.imul.rri.hex",
        "c03.push.i.hex", "c03.shl.r.hex", "c03.mov.m_word_bmd_s1_hex.neghex", "c03.add.r.neghex", "c03.mov.r64.neghex")]
    seeds += [s for s in c02_families(True, pool=True) if s.name in (
        "c02.mov.mr.bpd_s1_hex", "c02.mov.mr.bmd_s1_hex", "c02.add.rm.bpixspd_s2_hex", "c02.lea.rm.bpsximd_s8_hex", "c02.lea.rm.sxipd_s8_hex",
        "c02.lea.rm.d_s1_hex", "c02.lea.rm.md_s1_hex", "c02.vpaddd.yym.bpixspd_s2_hex", "c02.paddd.xm.bmd_s1_hex")]
    seeds += [s for s in c05_families(True) if s.name in ("c05.jmp.nokw.hex", "c05.jne.nokw.neghex", "c05.call.nokw.hex", "c05.jmp.short.hex")]
    import copy
    if quick:
        # (the radix handling of immediates is one function for every mnemonic; the per-change tier keeps the cheaper
        #  carriers and the mov r64 forms, whose narrowing depends on the spelling)
        seeds = [s for s in seeds if s.name not in ("c03.add.r.hex", "c03.add.r.neghex")]
    for s in seeds:
        for alt in ("dec", "hexz", "decz"):
            if alt == "hexz" and quick and s.name not in ("c03.test.r.hex", "c03.mov.r64.hex", "c02.mov.mr.bpd_s1_hex", "c02.lea.rm.d_s1_hex", "c05.jmp.nokw.hex"):
                continue
            if alt == "decz" and quick and s.name not in (
                    "c03.test.r.hex", "c03.mov.r64.hex", "c03.mov.m_word_bmd_s1_hex.neghex", "c02.mov.mr.bpd_s1_hex", "c02.mov.mr.bmd_s1_hex",
                    "c02.lea.rm.bpsximd_s8_hex", "c02.lea.rm.d_s1_hex", "c02.vpaddd.yym.bpixspd_s2_hex", "c05.jmp.nokw.hex", "c05.jne.nokw.neghex"):
                continue
            sk = copy.deepcopy(s)
            sk.name = "c16.base.%s.vs_%s" % (s.name, alt)
            sk.family = "spelling.base"
            sk.alt_parts = _respell(sk.parts, {"hex": alt})
            if alt == "hexz":
                for p in sk.parts:
                    if p[0] == "n":
                        sk.decl.append("ASSUME(N%d < (1ul << 48));" % p[1])
            out.append(sk)
    return out


# ---------------------------------------------------------------------------
# C06 (query C): a line in the context of a program yields the code it yields alone

# (only registers and literals that are not skeleton placeholders: the symbolic build's str_to_reg/strtoul stubs
#  bind rax rcx rdx rbx rsi rdi, xmm0-5, ymm0-5 and literals of one repeated digit to symbolic values)
CONTEXT_LINES = [
    "lea r8, [r9+r10*2]", "mov byte [rbp+r11], 5", "vpaddd ymm8, ymm9, [r8+r9*4+0x10]", "jmp short 0x4", "push r12",
    "shl r13, 1", "movzx r9d, byte [r10]", "mov r11, 0x1234567812345678", "paddd xmm9, [rsp+r13*4]", "imul r9w, word [r8d-0x80], 0x1234",
    "jmp far dword [r12]", "setne byte [rbp]", "shld qword [r8], r9, cl", "test qword [r8+r9*2], 0x7fffffff",
]


def c06_context_families(quick, assemble_alone):
    """assemble_alone(text) -> bytes or None (natively, current tree, identical under all 12 option combinations)"""
    import copy
    out = []
    ctx = CONTEXT_LINES if not quick else CONTEXT_LINES[:8]
    seeds = []
    seeds += [s for s in c01_families(True) if s.name in ("c01.add.rr", "c01.push.r", "c01.pop.r", "c01.setne.r", "c01.shl.r_cl", "c01.ret", "c01.imul.r")]
    seeds += [s for s in c02_families(True, pool=True) if s.name in ("c02.mov.mr.b_s1_hex", "c02.lea.rm.bpixs_s8_hex", "c02.push.m.b_s1_hex", "c02.neg.m.bpd_s1_hex.dword",
                                                          "c02.vpaddd.yym.b_s1_hex", "c02.paddd.rm.bpd_s1_hex")]
    seeds += [s for s in c03_families(True) if s.name in ("c03.add.r.hex", "c03.mov.m_byte_b_s1_hex.hex")]
    seeds += [s for s in c04_families(True) if s.name in ("c04.vpaddd.yyy", "c04.mulx.rrr", "c04.movq.x_r64")]
    seeds += [s for s in c05_families(True) if s.name in ("c05.jmp.nokw.hex", "c05.call.nokw.hex")]
    if quick:
        seeds = [s for i, s in enumerate(seeds)]
    for ci, ctext in enumerate(ctx):
        cb = assemble_alone(ctext)
        if cb is None:
            continue
        for s in seeds:
            if s.accept:          # relative branches use their own acceptance code; the context prefix is handled below
                pass
            sk = copy.deepcopy(s)
            sk.name = "c06.ctx%d.%s" % (ci, s.name)
            sk.family = "context"
            sk.extra_lines_before = ctext + "\n"
            sk.context = (ctext, cb)
            if sk.accept:
                continue          # (branch skeletons decode from `start`, which the generic context code shifts; keep to the generic form)
            out.append(sk)
    return out
