"""Skeleton families of the ENC engine (C01-C05, C11, C16/number base, C06/C).

Every function returns a list of encgen.Skel.  `quick` selects the per-change
subset; the thorough tier enumerates every documented form x shape.
"""
from . import forms as F
from .encgen import Skel, MemShape, add_mem, ALL_SHAPE_KINDS

G8 = "CM_GPR8ALL"
GV = "CM_GPRV"
GALL = "CM_GPRALL"
G64 = "CM(RC_GPR64)"
G32 = "CM(RC_GPR32)"
G16 = "CM(RC_GPR16)"
GY = "(CM(RC_GPR32) | CM(RC_GPR64))"
MM = "CM(RC_MM)"
XMM = "CM(RC_XMM)"
YMM = "CM(RC_YMM)"


def same_size(sk, a, b):
    sk.decl.append("ASSUME(vf_regsize(R%d) == vf_regsize(R%d));" % (a, b))


def chk_op(sk, xop, vex=0):
    sk.want = xop
    sk.post.append('CHECK(D.op == %s, "decodes to the operation written");' % xop)
    sk.post.append('CHECK(D.vex == %d, "legacy/VEX encoding space as the mnemonic demands");' % vex)


def chk_nopd(sk, n):
    sk.post.append('CHECK(D.nopd == %d, "operand count");' % n)


def chk_reg(sk, i, k):
    sk.post.append('CHECK(vf_chk_reg(&D.opd[%d], R%d), "operand %d is the written register");' % (i, k, i + 1))
    sk.high_rex.append("R%d" % k)


def chk_osize_reg(sk, k):
    sk.post.append('CHECK(D.osize == vf_regsize(R%d), "operand size is the size of the written register");' % k)
    if sk.rexw == "0":
        sk.rexw = "vf_regsize(R%d) == 64" % k


def chk_mem(sk, i, var, msize_expr):
    """memory operand i must denote the written address; width msize_expr (C expr, 0 = unsized)"""
    sk.post.append(
        "if (%(v)s.has_index && %(v)s.index.num == 4 && vf_opt_sw == 0) "
        'CHECK(vf_chk_mem_literal_sp_index(&D.opd[%(i)d], &%(v)s), "STRICT swap: stack-pointer index is encoded literally"); '
        'else CHECK(vf_chk_mem(&D.opd[%(i)d], &%(v)s), "memory operand denotes the written address");' % {"v": var, "i": i})
    sk.post.append('CHECK(D.opd[%d].msize == (%s), "memory access width as written");' % (i, msize_expr))


def mem_validity(sk, var, shape):
    """exclude what x86-64 cannot encode / C10 demands rejected"""
    if shape.has_index():
        if "*" in shape.kind:
            sk.decl.append("ASSUME(%s.index.num != 4);" % var)       # stack pointer is not scalable
        elif shape.has_base():
            sk.decl.append("ASSUME(!(%s.index.num == 4 && %s.base.num == 4));" % (var, var))
        else:
            sk.decl.append("ASSUME(%s.index.num != 4);" % var)


# ---------------------------------------------------------------------------
# C01: integer instructions on registers

def c01_families(quick):
    out = []

    def two_reg(mn, xop, mask0, mask1, sizes="same", commut=False, order=(0, 1)):
        sk = Skel("c01.%s.rr" % mn, "int.rr", mn)
        a = sk.reg(mask0)
        b = sk.reg(mask1)
        if sizes == "same":
            same_size(sk, a, b)
        sk.t(mn + " ").treg(a).t(", ").treg(b)
        chk_op(sk, xop)
        chk_nopd(sk, 2)
        if commut:
            sk.post.append('CHECK((vf_chk_reg(&D.opd[0], R0) && vf_chk_reg(&D.opd[1], R1)) || '
                           '(vf_chk_reg(&D.opd[0], R1) && vf_chk_reg(&D.opd[1], R0)), "the two exchanged registers");')
            sk.high_rex += ["R0", "R1"]
            sk.post.append('CHECK(!(D.nop90 && D.osize == 32), "opcode 90 is not xchg eax,eax in 64-bit mode (it does not clear the upper half of rax)");')
        else:
            chk_reg(sk, 0, a)
            chk_reg(sk, 1, b)
        chk_osize_reg(sk, a)
        return sk

    for mn, xop in list(F.ALU.items()) + [("mov", "XOP_MOV"), ("test", "XOP_TEST")]:
        out.append(two_reg(mn, xop, GALL, GALL))
    out.append(two_reg("xchg", "XOP_XCHG", GALL, GALL, commut=True))
    # movzx r16/32/64, r8/16
    sk = Skel("c01.movzx.rr", "int.rr", "movzx")
    a = sk.reg(GV)
    b = sk.reg("(CM_GPR8ALL | CM(RC_GPR16))")
    sk.decl.append("ASSUME(vf_regsize(R1) < vf_regsize(R0));")
    sk.t("movzx ").treg(a).t(", ").treg(b)
    chk_op(sk, "XOP_MOVZX"); chk_nopd(sk, 2); chk_reg(sk, 0, a); chk_reg(sk, 1, b); chk_osize_reg(sk, a)
    out.append(sk)
    for sfx in F.CMOV_SUFFIXES:
        mn = "cmov" + sfx
        out.append(two_reg(mn, "(XOP_CMOVCC + %d)" % F.CC[sfx], GV, GV))
    out.append(two_reg("imul", "XOP_IMUL", GV, GV))
    # one register operand
    for mn, xop in list(F.UNARY.items()) + [("imul", "XOP_IMUL")]:
        sk = Skel("c01.%s.r" % mn, "int.r", mn)
        a = sk.reg(GALL)
        sk.t(mn + " ").treg(a)
        chk_op(sk, xop); chk_nopd(sk, 1); chk_reg(sk, 0, a); chk_osize_reg(sk, a)
        out.append(sk)
    for mn, xop in (("push", "XOP_PUSH"), ("pop", "XOP_POP")):
        sk = Skel("c01.%s.r" % mn, "int.r", mn)
        a = sk.reg("(CM(RC_GPR64) | CM(RC_GPR16))")
        sk.t(mn + " ").treg(a)
        chk_op(sk, xop); chk_nopd(sk, 1); chk_reg(sk, 0, a)
        sk.post.append('CHECK(D.osize == vf_regsize(R0), "operand size");')
        out.append(sk)
    for sfx in F.SET_SUFFIXES:
        mn = "set" + sfx
        sk = Skel("c01.%s.r" % mn, "int.r", mn)
        a = sk.reg(G8)
        sk.t(mn + " ").treg(a)
        chk_op(sk, "(XOP_SETCC + %d)" % F.CC[sfx]); chk_nopd(sk, 1); chk_reg(sk, 0, a)
        out.append(sk)
    # shifts by cl and by the literal 1
    for mn, xop in F.SHIFT_CL.items():
        sk = Skel("c01.%s.r_cl" % mn, "int.shift", mn)
        a = sk.reg(GALL)
        sk.t(mn + " ").treg(a).t(", cl")
        chk_op(sk, xop); chk_nopd(sk, 2); chk_reg(sk, 0, a); chk_osize_reg(sk, a)
        sk.post.append('CHECK(D.opd[1].kind == XK_REG && D.opd[1].rc == RC_GPR8 && D.opd[1].num == 1, "count register is cl");')
        out.append(sk)
    for mn, xop in list(F.SHIFT_IMM.items()) + list(F.SHIFT_IMM_REGONLY.items()):
        sk = Skel("c01.%s.r_1" % mn, "int.shift", mn)
        a = sk.reg(GALL)
        sk.t(mn + " ").treg(a).t(", 1")
        chk_op(sk, xop); chk_nopd(sk, 2); chk_reg(sk, 0, a); chk_osize_reg(sk, a)
        sk.post.append('CHECK(D.opd[1].kind == XK_IMM && (D.opd[1].imm & 0xff) == 1, "shift count is 1");')
        out.append(sk)
    sk = Skel("c01.shld.rr_cl", "int.shift", "shld")
    a = sk.reg(GV); b = sk.reg(GV); same_size(sk, a, b)
    sk.t("shld ").treg(a).t(", ").treg(b).t(", cl")
    chk_op(sk, "XOP_SHLD"); chk_nopd(sk, 3); chk_reg(sk, 0, a); chk_reg(sk, 1, b); chk_osize_reg(sk, a)
    sk.post.append('CHECK(D.opd[2].kind == XK_REG && D.opd[2].rc == RC_GPR8 && D.opd[2].num == 1, "count register is cl");')
    out.append(sk)
    # no-operand instructions
    for mn, xop in F.NOOPERAND.items():
        sk = Skel("c01.%s" % mn, "int.noopd", mn)
        sk.t(mn)
        chk_op(sk, xop); chk_nopd(sk, 0)
        out.append(sk)
    for i in range(1, 12):
        mn = "nop" if i == 1 else "nop%d" % i
        sk = Skel("c01.%s" % mn, "int.noopd", mn)
        sk.t(mn)
        sk.want = "XOP_NOP"
        sk.post.append('CHECK(D.op == XOP_NOP, "decodes to a NOP");')
        sk.post.append('CHECK(n == %d, "NOP of the requested length");' % i)
        out.append(sk)
    return out


# ---------------------------------------------------------------------------
# C04: MMX / SSE / AVX / AVX2 / BMI2 / ADX register forms

def _vec(name, fam, mn, xop, vex, opds, extra_post=(), imm8=False):
    """opds: list of (mask, letter)"""
    sk = Skel(name, fam, mn)
    ks = [sk.reg(m, l) for m, l in opds]
    sk.t(mn + " ")
    for i, k in enumerate(ks):
        if i:
            sk.t(", ")
        sk.treg(k)
    n = len(ks)
    if imm8:
        kn = sk.num("$ <= 0xff")
        sk.t(", ").tnum(kn, "hex")
        n += 1
    chk_op(sk, xop, vex)
    chk_nopd(sk, n)
    for i, k in enumerate(ks):
        chk_reg(sk, i, k)
    if imm8:
        sk.post.append('CHECK(D.opd[%d].kind == XK_IMM && D.opd[%d].immw == 8 && (D.opd[%d].imm & 0xff) == (long)N0, "8-bit immediate carries the written value");' % (n - 1, n - 1, n - 1))
    for p in extra_post:
        sk.post.append(p)
    return sk


def c04_families(quick):
    out = []
    X = (XMM, "x")
    Y = (YMM, "y")
    Mm = (MM, "r")
    for mn, xop in F.PACKED_MM_XMM.items():
        out.append(_vec("c04.%s.xx" % mn, "sse.rr", mn, xop, 0, [X, X]))
        out.append(_vec("c04.%s.mm" % mn, "mmx.rr", mn, xop, 0, [Mm, Mm]))
    for mn, xop in list(F.SSE_XMM.items()) + list(F.SSE_XMM_REGONLY.items()):
        out.append(_vec("c04.%s.xx" % mn, "sse.rr", mn, xop, 0, [X, X]))
    out.append(_vec("c04.psrldq.xi", "sse.ri", "psrldq", "XOP_PSRLDQ", 0, [X], imm8=True))
    # moves between general and vector registers
    out.append(_vec("c04.movd.x_r32", "sse.mov", "movd", "XOP_MOVD", 0, [X, (G32, "r")]))
    out.append(_vec("c04.movd.r32_x", "sse.mov", "movd", "XOP_MOVD", 0, [(G32, "r"), X]))
    out.append(_vec("c04.movq.x_r64", "sse.mov", "movq", "XOP_MOVQ", 0, [X, (G64, "r")]))
    out.append(_vec("c04.movq.r64_x", "sse.mov", "movq", "XOP_MOVQ", 0, [(G64, "r"), X]))
    out.append(_vec("c04.movq.xx", "sse.mov", "movq", "XOP_MOVQ", 0, [X, X]))
    # AVX
    for mn, xop in F.AVX_YMM_ONLY.items():
        out.append(_vec("c04.%s.yyy" % mn, "avx.rrr", mn, xop, 1, [Y, Y, Y]))
    for mn, xop in F.AVX_BOTH.items():
        out.append(_vec("c04.%s.yyy" % mn, "avx.rrr", mn, xop, 1, [Y, Y, Y]))
        out.append(_vec("c04.%s.xxx" % mn, "avx.rrr", mn, xop, 1, [X, X, X]))
    for mn, xop in F.AVX_MOV.items():
        out.append(_vec("c04.%s.yy" % mn, "avx.rr", mn, xop, 1, [Y, Y]))
        out.append(_vec("c04.%s.xx" % mn, "avx.rr", mn, xop, 1, [X, X]))
    for mn, xop in F.AVX_PERM2.items():
        out.append(_vec("c04.%s.yyyi" % mn, "avx.rrri", mn, xop, 1, [Y, Y, Y], imm8=True))
    # BMI2 / ADX on general registers, 32 and 64 bit
    def gsame(sk, ks):
        for k in ks[1:]:
            same_size(sk, ks[0], k)
    for mn, xop in list(F.BMI_RMV.items()) + [("mulx", "XOP_MULX")]:
        sk = _vec("c04.%s.rrr" % mn, "bmi.rrr", mn, xop, 1, [(GY, "r")] * 3)
        gsame(sk, [0, 1, 2])
        out.append(sk)
    sk = _vec("c04.rorx.rri", "bmi.rri", "rorx", "XOP_RORX", 1, [(GY, "r")] * 2, imm8=True)
    gsame(sk, [0, 1])
    out.append(sk)
    for mn, xop in (("adcx", "XOP_ADCX"), ("adox", "XOP_ADOX")):
        sk = _vec("c04.%s.rr" % mn, "adx.rr", mn, xop, 0, [(GY, "r")] * 2)
        gsame(sk, [0, 1])
        out.append(sk)
    return out
