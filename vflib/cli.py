"""CLI engine (C20): tools/asmline.c with the library API and its environment replaced."""
import os

from . import core, glue

PRE = ['#include "vf_cli.h"']


class CliEngine(glue.GlueEngine):
    def __init__(self, pid, tier):
        self.pid = pid
        self.tier = tier
        self.wd = core.workdir("vf-cli")
        self.tb = {"instr_rows": 1, "opd_rows": 1}
        self.file_defs = {"asmline.c": PRE}
        self.lib = core.build_lib(self.wd, "cli", file_defs=self.file_defs, sources=["asmline.c"])
        self.stubs = False
        self.timeout = 1500 if tier == "quick" else 5400
        self.known = []
        self.min_harness_bound = 24

    def unwindset(self, extra=None):
        return dict(extra or {})

    def replay(self, tag, cfile, defs, inputs, common, native_extra=()):
        srcs = [os.path.join(core.CDIR, cfile), os.path.join(core.CDIR, "vf_main.c")] + \
            core.wrapped_sources(self.wd, "clin", ["asmline.c"], self.file_defs)
        try:
            exe = core.build_native(self.wd, tag + ".replay", srcs, defs=defs, sanitize=False)
        except core.MachineryError as e:
            return {"reproduced": False, "output": "native build failed: " + str(e)[-800:], "args": []}
        args = ["%d=%d" % (k, val) for k, val in sorted(inputs.items())]
        rc, out, err, _, to = core.run([exe] + args, timeout=30, limit=False)
        return {"reproduced": rc == 1, "exit": rc, "output": out[-1500:] + err[-500:], "args": args, "text": " ".join(args),
                "bytes": "", "rc": rc, "options": None}
