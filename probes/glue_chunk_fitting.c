#include <assemblyline.h>
#include "instruction_data.h"
#include <assert.h>
#include <stdlib.h>
#define MAXLEN 15
unsigned nondet_uint(void); unsigned char nondet_uchar(void); int nondet_int(void);
static unsigned L; static int cur; static unsigned npos[4], nwritten; 
static uint8_t bufarr[128]; static int BUFLEN;
int stub_str_to_instr(struct instr *ins, const char s[], int *read_len){ *read_len=2; ins->key=100; return EXIT_SUCCESS; }
static unsigned lastpos;
unsigned stub_assemble_asm(struct instr *ins, uint8_t *dest){
  assert(dest>=bufarr && dest+L <= bufarr+BUFLEN);
  lastpos=dest-bufarr; nwritten++;
  return L;
}
int main(void){
  unsigned n=nondet_uint(); __CPROVER_assume(n>=20 && n<=128); BUFLEN=n;
  assemblyline_t al=asm_create_instance(bufarr,n); __CPROVER_assume(al);
  unsigned c=nondet_uint(); __CPROVER_assume(c>=2 && c<=32);
  asm_set_chunk_size(al,c);
  int off=nondet_int(); __CPROVER_assume(off>=0 && off<=(int)n);
  asm_set_offset(al,off);
  L=nondet_uint(); __CPROVER_assume(L>=1 && L<=MAXLEN);
  int rc=asm_assemble_str(al,"x\n");
  if(rc==0){
    int end=asm_get_offset(al);
    assert(end==(int)(lastpos+L));
    if(L<c) assert(lastpos/c == (lastpos+L-1)/c);       /* inside one chunk */
    unsigned pad=lastpos-off;
    assert(pad==0 || (unsigned)off/c != ((unsigned)off+L-1)/c); /* padding only if needed */
    assert(pad<c);
  }
  return 0;
}
