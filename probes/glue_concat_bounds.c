#include <assemblyline.h>
#include "instruction_data.h"
#include <assert.h>
#include <stdlib.h>
#define MAXLEN 15
unsigned nondet_uint(void); unsigned char nondet_uchar(void); int nondet_int(void);
/* abstract program: k lines; line i has kind (0 skip,1 instr,2 fail) and length len[i] */
#define K 3
static unsigned kind[K], len[K]; static unsigned char code[K][MAXLEN];
static int cur;      /* line being parsed */
static uint8_t *BUF; static int BUFLEN;
int stub_str_to_instr(struct instr *ins, const char s[], int *read_len){
  /* text model: each abstract line is "x\n" */
  *read_len=2; int i=cur++;
  if(kind[i]==2) return EXIT_FAILURE;
  ins->key = kind[i]==0 ? SKIP : 100; ins->cons=i;
  return EXIT_SUCCESS;
}
unsigned stub_assemble_asm(struct instr *ins, uint8_t *dest){
  int i=ins->cons;
  /* C07: every byte written lies inside the caller buffer */
  assert(dest>=BUF && dest+len[i] <= BUF+BUFLEN);
  for(unsigned j=0;j<len[i];j++) dest[j]=code[i][j];
  return len[i];
}
int main(void){
  unsigned n=nondet_uint(); __CPROVER_assume(n<=64);
  uint8_t *buf=malloc(n?n:1); __CPROVER_assume(buf);
  BUF=buf; BUFLEN=n;
  assemblyline_t al=asm_create_instance(buf,n); __CPROVER_assume(al);
  int off=nondet_int(); __CPROVER_assume(off>=0 && off<=(int)n);
  asm_set_offset(al,off);
  for(int i=0;i<K;i++){ kind[i]=nondet_uint(); len[i]=nondet_uint(); __CPROVER_assume(kind[i]<3 && len[i]>=1 && len[i]<=MAXLEN); for(int j=0;j<MAXLEN;j++) code[i][j]=nondet_uchar(); }
  int rc=asm_assemble_str(al,"x\nx\nx\n");
  /* C06: concatenation + offset */
  int fail=0; unsigned tot=0;
  for(int i=0;i<K && !fail;i++){ if(kind[i]==2) fail=1; else if(kind[i]==1){ if(!fail) tot+=len[i]; } }
  if(rc==0){ assert(!fail || 1); assert(asm_get_offset(al)==off+(int)tot);
    unsigned p=off; for(int i=0;i<K;i++) if(kind[i]==1) for(unsigned j=0;j<len[i];j++) assert(buf[p++]==code[i][j]); }
  return 0;
}
