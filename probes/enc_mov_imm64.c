#include "/repo/src/parser.c"
#include <assert.h>
uint8_t buf[64];
unsigned nondet_uint(void); unsigned long nondet_ulong(void);
static unsigned SYM[4]; static unsigned long NUM[2]; static int numi;
asm_reg str_to_reg(char *reg){
  if(reg[0]==0) return reg_none;
  if(!strcmp(reg,"rax")) return SYM[0];
  if(!strcmp(reg,"rcx")) return SYM[1];
  return reg_error;
}
unsigned long strtoul(const char *s, char **e, int base){ (void)s;(void)e;(void)base; return NUM[numi++]; }
int main(void){
  assemblyline_t al = asm_create_instance(buf, 64);
  __CPROVER_assume(al!=0);
  unsigned mv=nondet_uint(), sw=nondet_uint(), nb=nondet_uint(); __CPROVER_assume(mv<3&&sw<2&&nb<2);
  asm_mov_imm(al, mv); asm_sib_index_base_swap(al, sw); asm_sib_no_base(al, nb);
  unsigned num=nondet_uint(); __CPROVER_assume(num<16);
  SYM[0]= (num>7?ext64:reg64)|num;
  unsigned long v=nondet_ulong(); NUM[0]=v;
#ifdef SHORT
  __CPROVER_assume(v<=0xffffffffUL);
  int rc = asm_assemble_str(al, "mov rax, 0x11111111\n");
#else
  int rc = asm_assemble_str(al, "mov rax, 0x1111111111111111\n");
#endif

  assert(rc==0);
  int n=asm_get_offset(al);
  uint8_t *q=buf; int rex=0;
  if((*q&0xf0)==0x40){rex=*q;q++;}
  unsigned op=*q++; unsigned long got;
  if((op&0xf8)==0xb8){
    unsigned r=(op&7)|((rex&1)?8:0); assert(r==num);
    if(rex&8){ got=0; for(int i=0;i<8;i++) got|=(unsigned long)q[i]<<(8*i); q+=8; }
    else { got=0; for(int i=0;i<4;i++) got|=(unsigned long)q[i]<<(8*i); q+=4; }
  } else { assert(op==0xc7); assert(rex&8); unsigned modrm=*q++; assert((modrm>>6)==3 && ((modrm>>3)&7)==0);
    unsigned r=(modrm&7)|((rex&1)?8:0); assert(r==num);
    got=(unsigned long)(long)(int)(q[0]|(q[1]<<8)|(q[2]<<16)|((unsigned)q[3]<<24)); q+=4; }
  assert(got==v);
  assert(q-buf==n);
#ifdef WITNESS
  assert(0);
#endif
  return 0;
}
