#include "/repo/src/parser.c"
#include <assert.h>
uint8_t buf[64];
unsigned nondet_uint(void);
static unsigned SYM[4];
asm_reg str_to_reg(char *reg){
  if(reg[0]==0) return reg_none;
  if(!strcmp(reg,"rax")) return SYM[0];
  if(!strcmp(reg,"rcx")) return SYM[1];
  if(!strcmp(reg,"rdx")) return SYM[2];
  if(!strcmp(reg,"rbx")) return SYM[3];
  return reg_error;
}
/* spec: abstract gpr: size in {8,16,32,64}, num 0..15, high8 flag */
struct areg { unsigned size, num, high; };
static unsigned enc(struct areg r){
  if(r.high) return noext8 | r.num; /* ah=4.. */
  unsigned ext = r.num>7;
  unsigned mode = r.size==8 ? (ext?ext8:reg8) : r.size==16 ? (ext?ext16:reg16) : r.size==32 ? (ext?ext32:reg32) : (ext?ext64:reg64);
  return mode | r.num;
}
static struct areg any_gpr(void){
  struct areg r; r.size=nondet_uint(); r.num=nondet_uint(); r.high=nondet_uint();
  __CPROVER_assume(r.size==8||r.size==16||r.size==32||r.size==64);
  __CPROVER_assume(r.num<16 && r.high<2);
  if(r.high) __CPROVER_assume(r.size==8 && r.num>=4 && r.num<8);
  return r;
}
int main(void){
  assemblyline_t al = asm_create_instance(buf, 64);
  __CPROVER_assume(al!=0);
  struct areg a=any_gpr(), b=any_gpr();
  __CPROVER_assume(a.size==b.size);
  /* high-byte regs not encodable with REX */
  int rexneed = a.num>7 || b.num>7 || (a.size==8 && !a.high && a.num>=4) || (b.size==8 && !b.high && b.num>=4);
  __CPROVER_assume(!((a.high||b.high) && rexneed));
  SYM[0]=enc(a); SYM[1]=enc(b);
  char line[FILTERED_STR_LEN]="add rax,rcx";
  struct instr ins={0};
  ins.assembly_opt=al->assembly_opt;
  int rc = line_to_instr(&ins, line);
  assert(rc==0);
  int n=assemble_asm(&ins, buf);
  /* mini decoder */
  uint8_t *q=buf; int p66=0, rex=0;
  if(*q==0x66){p66=1;q++;}
  if((*q&0xf0)==0x40){rex=*q;q++;}
  unsigned op=*q++; unsigned modrm=*q++;
  assert(q-buf==n);
  assert(op==0x00||op==0x01||op==0x02||op==0x03);
  unsigned osz = (op&1)? ((rex&8)?64: p66?16:32) : 8;
  assert(osz==a.size);
  assert((modrm>>6)==3);
  unsigned regf=((modrm>>3)&7)|((rex&4)?8:0), rmf=(modrm&7)|((rex&1)?8:0);
  unsigned dst = (op&2)? regf: rmf, src=(op&2)? rmf: regf;
  /* 8-bit without rex: 4..7 = ah..bh */
  unsigned ad = a.high? a.num : a.num, bd=b.num;
  assert(dst==a.num && src==b.num);
  if(osz==8 && !rex){ assert( (a.num<4||a.high) && (b.num<4||b.high)); }
  if(osz==8 && rex){ assert(!a.high && !b.high); }
#ifdef WITNESS
  assert(0);
#endif
  return 0;
}
