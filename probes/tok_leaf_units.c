#include "/repo/src/tokenizer.c"
#include <assert.h>
#ifndef L
#define L 12
#endif
char nondet_char(void); unsigned nondet_uint(void);
/* operand string sits at arbitrary offset inside a FILTERED_STR_LEN buffer, NUL-terminated */
static char arr[FILTERED_STR_LEN];
int main(void){
  unsigned off=nondet_uint(); __CPROVER_assume(off>=1 && off<FILTERED_STR_LEN-L);
#ifdef ATEND
  off = FILTERED_STR_LEN-1-L;
#endif
  for(int i=0;i<FILTERED_STR_LEN;i++) arr[i]=nondet_char();
  arr[off+L]=0;
  char *s=arr+off;
  struct instr ins={0};
  unsigned pos=nondet_uint(); __CPROVER_assume(pos<4);
#if defined(T_REGSTR)
  get_reg_str(s, ins.opd[pos].str);
#elif defined(T_ADD)
  bool neg=0; int base=0; int r=find_add_mem(s,&neg,&base); assert(r==NA || (r>=1 && r<=L));
#elif defined(T_CONST)
  bool neg=0; int base=0; int r=find_mem_const(s,&neg,&base); assert(r==NA || (r>=1 && r<=L+1));
#elif defined(T_INDEX)
  __CPROVER_assume(s[0]!=0);
  get_index_reg(&ins, s, ins.opd[pos].sib);
#elif defined(T_KW)
  check_for_keyword(&ins, s, pos);
#elif defined(T_TYPE)
  get_operand_type(s);
#elif defined(T_MEMTOK)
  __CPROVER_assume(s[0]!=0);
  mem_tok(&ins, s, pos);
#endif
  return 0;
}
