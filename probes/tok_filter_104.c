#include "/repo/src/parser.c"
#include <assert.h>
#ifndef N
#define N 104
#endif
char nondet_char(void);
int main(void){
  char raw[N+1];
  for(int i=0;i<N;i++) raw[i]=nondet_char();
  raw[N]=0;
  char filter_str[FILTERED_STR_LEN] = {'\0'};
  int r = filter_assembly_str_fsa(raw, filter_str);
  /* postcondition wanted by str_to_instr: NUL-terminated */
  int term=0; for(int i=0;i<FILTERED_STR_LEN;i++) if(filter_str[i]==0) term=1;
  assert(term);
  return 0;
}
