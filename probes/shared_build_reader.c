#include <assemblyline.h>
#include "instruction_data.h"
#include <assert.h>
void __CPROVER_file_local_assemblyline_c_asm_build_index_tables(void);
unsigned nondet_uint(void); int nondet_int(void);
static int seen, init; static unsigned which; static int d1,d3;
int main(void){
  which=nondet_uint(); __CPROVER_assume(which<26);
  __CPROVER_file_local_assemblyline_c_asm_build_index_tables();
  int final = instr_table_index[which];
  for(int i=0;i<26;i++){ instr_table_index[i]=nondet_int(); opd_format_table_index[i]=nondet_int(); }
  init=instr_table_index[which];
  __CPROVER_ASYNC_1: (__CPROVER_file_local_assemblyline_c_asm_build_index_tables(), d1=1);
  __CPROVER_ASYNC_3: (seen = instr_table_index[which], d3=1);
  __CPROVER_assume(d1 && d3);
  assert(seen==init || seen==final);
  return 0;
}
