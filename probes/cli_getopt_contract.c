#include <assemblyline.h>
#include <assert.h>
#include <stdlib.h>
#include <getopt.h>
#include <stdio.h>
/* recording stubs for the library API */
static int mov_state=2, swap_state=1, nb_state=1; /* defaults SMART,NASM,NASM */
static int file_called, str_called, bin_called, rc_asm, rc_bin; static struct assemblyline *dummy;
int nondet_int(void);
assemblyline_t asm_create_instance(uint8_t *b,int l){ return (assemblyline_t)&dummy; }
void asm_mov_imm(assemblyline_t al, enum asm_opt o){ if(o<=2) mov_state=o; }
void asm_sib_index_base_swap(assemblyline_t al, enum asm_opt o){ if(o<=1) swap_state=o; }
void asm_sib_no_base(assemblyline_t al, enum asm_opt o){ if(o<=1) nb_state=o; }
void asm_set_all(assemblyline_t al, enum asm_opt o){ if(o==NASM||o==STRICT){mov_state=o;swap_state=o;nb_state=o;} else if(o==SMART) mov_state=SMART; }
void asm_set_debug(assemblyline_t al, bool d){}
void asm_set_chunk_size(assemblyline_t al, size_t c){}
int asm_assemble_file(assemblyline_t al, char *f){ file_called++; return rc_asm; }
int asm_assemble_file_counting_chunks(assemblyline_t al, char *f,int c,int *d){ file_called++; *d=0; return rc_asm; }
int asm_assemble_str(assemblyline_t al, const char *s){ str_called++; return rc_asm; }
int asm_assemble_string_counting_chunks(assemblyline_t al, char *s,int c,int *d){ str_called++; *d=0; return rc_asm;}
void *asm_get_code(assemblyline_t al){ return 0; }
int asm_create_bin_file(assemblyline_t al, const char *f){ bin_called++; return rc_bin; }
/* getopt_long contract stub: returns a nondet sequence of at most NOPT options from the table */
#define NOPT 3
static int calls;
int getopt_long(int argc, char *const argv[], const char *os, const struct option *lo, int *li){
  if(calls++>=NOPT) { optind=1; return -1; }
  int k=nondet_int(); __CPROVER_assume(k>=-1 && k<21);
  if(k==-1){ optind=1; return -1; }
  if(lo[k].has_arg==required_argument){ optarg="5"; } else optarg=0;
  if(lo[k].flag){ *lo[k].flag=lo[k].val; return 0; }
  return lo[k].val;
}
int isatty(int fd){ return 0; }
int real_main(int argc, char *argv[]);
int main(void){
  rc_asm=nondet_int(); __CPROVER_assume(rc_asm==0||rc_asm==1); rc_bin=nondet_int(); __CPROVER_assume(rc_bin==0||rc_bin==1);
  char *argv[]={"asmline","x","f.asm",0};
  int rc=real_main(3,argv);
  assert(file_called==1);
  assert(rc==0 || rc==1);
  return 0;
}
