#include "/repo/src/parser.c"
#include <assert.h>
uint8_t buf[64];
unsigned nondet_uint(void); unsigned long nondet_ulong(void);
static unsigned SYM[4]; static unsigned long NUM[2]; static int numi;
asm_reg str_to_reg(char *reg){
  if(reg[0]==0) return reg_none;
  if(!strcmp(reg,"rax")) return SYM[0];
  if(!strcmp(reg,"rcx")) return SYM[1];
  if(!strcmp(reg,"rdx")) return SYM[2];
  if(!strcmp(reg,"rbx")) return SYM[3];
  return reg_error;
}
unsigned long strtoul(const char *s, char **e, int base){ (void)s;(void)e;(void)base; return NUM[numi++]; }
struct areg { unsigned size, num, high; };
static unsigned enc(struct areg r){
  if(r.high) return noext8 | r.num;
  unsigned ext = r.num>7;
  unsigned mode = r.size==8 ? (ext?ext8:reg8) : r.size==16 ? (ext?ext16:reg16) : r.size==32 ? (ext?ext32:reg32) : (ext?ext64:reg64);
  return mode | r.num;
}
static struct areg any_gpr(void){
  struct areg r; r.size=nondet_uint(); r.num=nondet_uint(); r.high=nondet_uint();
  __CPROVER_assume(r.size==8||r.size==16||r.size==32||r.size==64);
  __CPROVER_assume(r.num<16 && r.high<2);
  if(r.high) __CPROVER_assume(r.size==8 && r.num>=4 && r.num<8);
  return r;
}
int main(void){
  assemblyline_t al = asm_create_instance(buf, 64);
  __CPROVER_assume(al!=0);
  unsigned opt=nondet_uint(); __CPROVER_assume(opt<32); al->assembly_opt=opt;
  struct areg base=any_gpr(), idx=any_gpr(), src=any_gpr();
  __CPROVER_assume(base.size==idx.size && (base.size==64||base.size==32));
  __CPROVER_assume(idx.num!=4); /* rsp not index */
  __CPROVER_assume(src.size==64 && !src.high);
  unsigned long d=nondet_ulong(); __CPROVER_assume(d<=0x7fffffff);
  SYM[0]=enc(base); SYM[1]=enc(idx); SYM[2]=enc(src); NUM[0]=d;
  int rc = asm_assemble_str(al, "mov qword [rax+rcx*8+0x1111], rdx\n");
  assert(rc==0);
  int n=asm_get_offset(al);
  uint8_t *q=buf; int p67=0, rex=0;
  if(*q==0x67){p67=1;q++;}
  if((*q&0xf0)==0x40){rex=*q;q++;}
  assert(p67==(base.size==32));
  assert(rex&8);
  unsigned op=*q++; assert(op==0x89);
  unsigned modrm=*q++; unsigned mod=modrm>>6, rm=modrm&7, regf=((modrm>>3)&7)|((rex&4)?8:0);
  assert(regf==src.num);
  assert(mod!=3 && rm==4);
  unsigned sib=*q++; unsigned ss=sib>>6, ix=((sib>>3)&7)|((rex&2)?8:0), bs=(sib&7)|((rex&1)?8:0);
  assert(ss==3 && ix==idx.num && bs==base.num);
  long disp=0;
  if(mod==0){ assert((bs&7)!=5); disp=0; }
  else if(mod==1){ disp=(signed char)*q; q++; }
  else { disp=(int)(q[0]|(q[1]<<8)|(q[2]<<16)|((unsigned)q[3]<<24)); q+=4; }
  assert(disp==(long)d);
  assert(q-buf==n);
#ifdef WITNESS
  assert(0);
#endif
  return 0;
}
