#include "/repo/src/parser.c"
#include <assert.h>
uint8_t buf[32];
unsigned nondet_uint(void); unsigned long nondet_ulong(void);
static unsigned SYM[4];
asm_reg str_to_reg(char *reg){
  if(reg[0]==0) return reg_none;
  if(!strcmp(reg,"ymm1")) return SYM[0];
  if(!strcmp(reg,"ymm2")) return SYM[1];
  if(!strcmp(reg,"rax")) return SYM[2];
  if(!strcmp(reg,"rcx")) return SYM[3];
  return reg_error;
}
unsigned long strtoul(const char *s, char **e, int base){ return 0; }
int main(void){
  assemblyline_t al = asm_create_instance(buf, 32);
  __CPROVER_assume(al!=0);
  unsigned a=nondet_uint(), b=nondet_uint(), bs=nondet_uint(), ix=nondet_uint();
  __CPROVER_assume(a<16&&b<16&&bs<16&&ix<16&&ix!=4);
  SYM[0]=mmx64|mm0|a; SYM[1]=mmx64|mm0|b; SYM[2]=(bs>7?ext64:reg64)|bs; SYM[3]=(ix>7?ext64:reg64)|ix;
  int rc = asm_assemble_str(al, "vpaddd ymm1, ymm2, [rax+rcx*4]\n");
  assert(rc==0);
  int n=asm_get_offset(al);
  uint8_t *q=buf; unsigned Rb,Xb,Bb,mmmmm,Wb,vvvv,Lb,pp;
  if(*q==0xc5){ q++; Rb=!(*q>>7); Xb=0;Bb=0;mmmmm=1;Wb=0; vvvv=(~(*q>>3))&15; Lb=(*q>>2)&1; pp=*q&3; q++; }
  else { assert(*q==0xc4); q++; Rb=!(*q>>7); Xb=!((*q>>6)&1); Bb=!((*q>>5)&1); mmmmm=*q&31; q++; Wb=*q>>7; vvvv=(~(*q>>3))&15; Lb=(*q>>2)&1; pp=*q&3; q++; }
  assert(mmmmm==1 && pp==1 && Lb==1);
  assert(*q++==0xfe);
  unsigned modrm=*q++; assert((modrm>>6)!=3 && (modrm&7)==4);
  assert((((modrm>>3)&7)|(Rb<<3))==a); assert(vvvv==b);
  unsigned sib=*q++; assert((sib>>6)==2); assert((((sib>>3)&7)|(Xb<<3))==ix); assert(((sib&7)|(Bb<<3))==bs);
  if((modrm>>6)==0) assert((bs&7)!=5); else { assert((modrm>>6)==1 && *q==0); q++; }
  assert(q-buf==n);
  return 0;
}
