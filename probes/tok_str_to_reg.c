#include "reg_parser.h"
#include "registers.h"
#include <assert.h>
#include <string.h>
char nondet_char(void);
/* independent spec table: name -> value */
struct sp { const char *n; unsigned v; };
static const struct sp SPEC[] = {
 {"al",0},{"cl",1},{"dl",2},{"bl",3},{"spl",4},{"bpl",5},{"sil",6},{"dil",7},
 {"r8b",0x88},{"r9b",0x89},{"r10b",0x8a},{"r11b",0x8b},{"r12b",0x8c},{"r13b",0x8d},{"r14b",0x8e},{"r15b",0x8f},
 {"ah",0x104},{"ch",0x105},{"dh",0x106},{"bh",0x107},
 {"ax",0x200},{"cx",0x201},{"dx",0x202},{"bx",0x203},{"sp",0x204},{"bp",0x205},{"si",0x206},{"di",0x207},
 {"r8w",0x288},{"r9w",0x289},{"r10w",0x28a},{"r11w",0x28b},{"r12w",0x28c},{"r13w",0x28d},{"r14w",0x28e},{"r15w",0x28f},
 {"eax",0x300},{"ecx",0x301},{"edx",0x302},{"ebx",0x303},{"esp",0x304},{"ebp",0x305},{"esi",0x306},{"edi",0x307},
 {"r8d",0x388},{"r9d",0x389},{"r10d",0x38a},{"r11d",0x38b},{"r12d",0x38c},{"r13d",0x38d},{"r14d",0x38e},{"r15d",0x38f},
 {"rax",0x400},{"rcx",0x401},{"rdx",0x402},{"rbx",0x403},{"rsp",0x404},{"rbp",0x405},{"rsi",0x406},{"rdi",0x407},
 {"r8",0x488},{"r9",0x489},{"r10",0x48a},{"r11",0x48b},{"r12",0x48c},{"r13",0x48d},{"r14",0x48e},{"r15",0x48f},
 {0,0}};
int main(void){
  char s[6]; for(int i=0;i<5;i++) s[i]=nondet_char(); s[5]=0;
  __CPROVER_assume(s[0]!=0);
  /* only GPR part in this probe: exclude m/x/y initial */
  __CPROVER_assume(s[0]!='m' && s[0]!='x' && s[0]!='y');
  unsigned got = str_to_reg(s);
  int found=0; unsigned want=reg_error;
  for(int k=0;SPEC[k].n;k++) if(!strcmp(s,SPEC[k].n)){found=1;want=SPEC[k].v;}
  if(found) assert(got==want); else assert(got & reg_error);
  return 0;
}
