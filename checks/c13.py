"""C13: chunk fitting."""
from vflib import core, glue, report


def run(tier, only=None):
    rep = report.Report("C13", tier, "model_checking")
    eng = glue.GlueEngine("C13", tier)
    cmax = 24 if tier == "quick" else 64
    k = 2
    ks = [x for x in eng.known if x["property"] == "C13"]
    excl = " || ".join("(%s)" % x["when"] for x in ks) or None
    uw = {"assemble_all.0": k + 2, "__CPROVER_file_local_parser_c_assemble_with_chunk_fitting.0": 4}
    res = []
    res.append(eng.run("c13.fitting", "glue_c13.c", defs=["-DCMAX=%d" % cmax, "-DCMIN=0", "-DKMAX=%d" % k, "-DNPROG=2"], unwind=20, unwindset=uw,
                       exclude=excl, timeout=1500 if tier == "quick" else 7200))
    rep.add(res)
    for x in ks:
        r = eng.run("c13.known." + x["id"], "glue_c13.c", defs=["-DCMAX=%d" % cmax, "-DCMIN=0", "-DKMAX=%d" % k, "-DNPROG=2"], unwind=20,
                    unwindset=uw, only=x["when"])
        rep.known(x, r["status"] == "violated", r)
    return rep.finish(
        {"symbolic_per_query": "buffer length 0..128, start offset 0..n, chunk size of the first call 0..%d and of the second call 0..%d (values < 2 switch fitting off), two programs of up to %d abstract lines (skip or instruction of length 1..15 with arbitrary bytes), mov-immediate mode" % (cmax, cmax, k)},
        glue.GLUE_ASSUMPTIONS + ["NOP oracle: the Intel-recommended 1..11 byte NOPs written independently in /verif/c/glue.c; a padding run may be one or two of them"],
        {"chunk_size_max": cmax, "lines_per_program": k, "calls": 2, "buffer_max": 128, "instruction_length": "1..15",
         "outside": "chunk sizes above the stated maximum; more than %d lines per call" % k},
        "one CBMC query over all chunk sizes, offsets, buffer lengths and instruction lengths within the bounds",
        ["asm_create_instance", "asm_set_chunk_size", "asm_set_offset", "asm_assemble_str", "assemble_all", "assemble",
         "assemble_with_chunk_fitting", "check_len_or_resize", "nop_padding", "FIXED_NOP_LENGTH"])
