"""C13: chunk fitting pads with NOPs so that no instruction straddles a chunk boundary."""
from vflib import gluechecks


def run(tier, only=None):
    cs = [2, 3, 5, 8, 13, 16, 24] if tier == "quick" else list(range(2, 33)) + [40, 48, 63, 64]
    q = []
    for c in cs:
        outer = (c - 1) // 11 + 2
        q.append({"name": "c13.step.c%d" % c, "cfile": "glue_c13.c",
                  "defs": ["-DCMAX=64", "-DCFIX=%d" % c, "-DKMAX=1", "-DNPROG=1", "-DNCALLS=1", "-DGBUF=72"],
                  "unwindset": {"nop_padding.1": outer}, "timeout": 800 if tier == "quick" else 3600})
    for c in ([5] if tier == "quick" else [3, 5, 8, 16, 24]):
        outer = (c - 1) // 11 + 2
        q.append({"name": "c13.two_calls.c%d" % c, "cfile": "glue_c13.c",
                  "defs": ["-DCMAX=64", "-DCFIX=%d" % c, "-DKMAX=1", "-DNPROG=2", "-DNCALLS=2", "-DGBUF=56", "-DGLUE_NOWRITE"],
                  "unwindset": {"nop_padding.1": outer}, "timeout": 800 if tier == "quick" else 3600})
    q.append({"name": "c13.off", "cfile": "glue_c13.c",
              "defs": ["-DCMAX=1", "-DCMIN=0", "-DKMAX=%d" % (1 if tier == "quick" else 2), "-DNPROG=2", "-DNCALLS=2", "-DGBUF=%d" % (32 if tier == "quick" else 48),
                       "-DLMAX=4", "-DNFIXED=1"], "timeout": 800 if tier == "quick" else 3600})
    return gluechecks.run_queries(
        "C13", tier, q,
        "per chunk size c (one query each): buffer length 0..72, start offset 0..n, one abstract instruction of length 1..13 with arbitrary bytes (step query; covers every position relative to a boundary), mov-immediate mode; two-call queries: two programs of up to 2 lines, second call with fitting kept, or switched off (c2 in {0,1,c}); c13.off: chunk sizes 0 and 1",
        {"chunk_sizes": cs, "instruction_length": "1..13 (ENC length lemma)", "buffer_max": 72,
         "outside": "chunk sizes not enumerated; more than 2 lines per call in the direct queries (the step query is inductive over lines: the only state between lines is the buffer position, which is symbolic)"},
        "one CBMC query per chunk size (a symbolic divisor makes the 64-bit remainder dominate); non-trivial when the witness is reachable",
        ["NOP oracle: the Intel-recommended 1..11-byte NOPs written independently in /verif/c/glue.c; a padding run may be one or two of them"], only)
