"""C20 (reduced scope): asmline's option handling, entry-point selection, outputs and exit status."""
from vflib import cli, core, report


def run(tier, only=None):
    rep = report.Report("C20", tier, "other")
    eng = cli.CliEngine("C20", tier)
    qs = [("c20.cli.opt2", ["-DNOPT=2", "-DNLINES=2"])] if tier == "quick" else [("c20.cli.opt2", ["-DNOPT=2", "-DNLINES=2"]), ("c20.cli.opt3", ["-DNOPT=3", "-DNLINES=2"])]

    def job(q):
        return eng.run(q[0], "cli_c20.c", defs=q[1], unwind=34, common=("vf_main.c",), replace=[], checks="default",
                       remove_bodies=["__CPROVER_file_local_asmline_c_execute_get_ret_value"],
                       ignore_props=[r"no-body.*execute_get_ret_value"])
    rep.add(core.pmap(job, qs))
    expl = ("Reduced scope. Decided by CBMC on the real tools/asmline.c (main, parse_opt, set_mov_imm, set_sib_all, set_sib_swap, set_sib_no_base, findMode, create_binary_file, print_chunk_brks): "
            "for every sequence of up to N options of the real option table (every mode flag incl. -n/-t/-s, -p, -P f, -o f, -c N, -b N, --help/--version; arguments 5/0/1/16), FILE or stdin source with up to 2 lines, arbitrary results of the assemble and bin-file calls: "
            "the option calls leave the recording model in the state the flags document (asserted per dimension when one group of flags addresses it), -c N sets the chunk size, -b N selects the counting entry point with N and the printed number is the (summed) library count, "
            "FILE goes through the file entry point once and stdin through the in-memory entry point per line, -P/-o write NAME / NAME.bin once and only after successful assembly, exit status is zero iff assembly and the requested output succeeded. "
            "Not covered: -r/--rand (executing generated code), libc's matching of command-line strings to option entries (getopt_long is a contract stub), the text of --help/--version, and the byte-level equality of -p/-P output with the library's bytes (the library's printing and file writing are C19/C06; here the calls are checked).")
    return rep.finish({"explanation": expl, "options_per_sequence": 2 if tier == "quick" else 3},
                      ["the asm_* API is a recording model that implements the documented setter semantics (same transition function as C12's oracle)",
                       "getopt_long contract stub: arbitrary sequence of entries of the option table passed by the real parse_opt, flag/val store, optarg for options with arguments, optind at the end",
                       "atoi/strchr/strlen/snprintf/calloc/getline/isatty/printf/exit replaced by small models (listed in /verif/c/vf_cli.h)"],
                      {"NOPT": 2 if tier == "quick" else 3, "NLINES": 2},
                      "one CBMC query over all option sequences of the stated length",
                      ["main", "parse_opt", "set_mov_imm", "set_sib_all", "set_sib_swap", "set_sib_no_base", "findMode", "create_binary_file", "print_chunk_brks"])
