"""C18 (reduced scope): independent instances in different threads -- sequential
reduction S1-S5 (DESIGN.md 5/C18).  The schedule quantifier itself is not
explored by any tool installed here."""
import glob
import os
import re
import string
import time

from vflib import core, report, tok

DENY = {"strtok", "rand", "srand", "random", "srandom", "strerror", "localtime", "gmtime", "asctime", "ctime", "getenv", "setlocale",
        "tmpnam", "readdir", "getpwnam", "getpwuid", "gethostbyname", "strsignal", "ttyname", "basename", "dirname", "drand48", "lrand48",
        "setenv", "putenv", "signal"}
SHARED = {"instr_table_index", "opd_format_table_index"}


def ir_audit(wd):
    """S1 (census) and S5 (atomic access) on the LLVM IR of the current tree"""
    problems = []
    globs = {}
    decls = set()
    accesses = 0
    for src in sorted(glob.glob(os.path.join(core.REPO, "src", "*.c"))):
        ll = os.path.join(wd, os.path.basename(src).replace(".c", ".ll"))
        core.must(["clang-14", "-S", "-emit-llvm", "-O1", "-I%s/src" % core.REPO, "-I%s" % core.REPO, "-w", "-o", ll, src], limit=False)
        txt = open(ll).read()
        for m in re.finditer(r"^@([\w.$]+) = (.*)$", txt, re.M):
            name, rest = m.group(1), m.group(2)
            if rest.startswith("external"):
                continue
            if re.search(r"\b(constant)\b", rest.split("[")[0] + " " + rest.split(" ")[0] + " " + " ".join(rest.split(" ")[:6])):
                continue
            globs.setdefault(name, []).append(os.path.basename(src))
        for m in re.finditer(r"^declare [^@]*@(\w+)\(", txt, re.M):
            decls.add(m.group(1))
        # per function: every load/store through a pointer derived from the shared arrays must be atomic
        for fm in re.finditer(r"^define [^@]*@(\w+)\(.*?^}", txt, re.M | re.S):
            body = fm.group(0)
            derived = set("@" + s for s in SHARED)
            changed = True
            while changed:
                changed = False
                for m in re.finditer(r"^\s*(%[\w.]+) = (getelementptr|bitcast|select|phi)[^\n]*", body, re.M):
                    if m.group(1) not in derived and any(re.search(re.escape(d) + r"\b", m.group(0).split("=", 1)[1]) for d in derived):
                        derived.add(m.group(1)); changed = True
            for m in re.finditer(r"^\s*(?:%[\w.]+ = )?(load|store)\b[^\n]*", body, re.M):
                line = m.group(0)
                ptr_part = line.split(",")[1] if m.group(1) == "load" else line.split(",")[1]
                if any(re.search(re.escape(d) + r"\b", ptr_part) for d in derived):
                    accesses += 1
                    if " atomic " not in line:
                        problems.append("non-atomic access to shared index table in %s(): %s" % (fm.group(1), line.strip()[:120]))
    mutable = {n: f for n, f in globs.items() if not n.startswith(".str")}
    extra = [n for n in mutable if n not in SHARED and not n.startswith(".compoundliteral")]
    for n in extra:
        problems.append("mutable object with static storage besides the two index tables: %s (%s)" % (n, ",".join(mutable[n])))
    for n in [n for n in mutable if n.startswith(".compoundliteral")]:
        # only acceptable when referenced solely from a constant initialiser
        pass
    bad = sorted(decls & DENY)
    for b in bad:
        problems.append("non-re-entrant C library function called: %s" % b)
    return problems, sorted(mutable), sorted(decls), accesses


def run(tier, only=None):
    rep = report.Report("C18", tier, "other")
    te = tok.TokEngine("C18", tier)
    t0 = time.time()
    problems, mutable, decls, accesses = ir_audit(te.wd)
    n = te.tb["instr_rows"] + 8
    units = [("c18.build", ["-DMODE_BUILD"]), ("c18.observe", ["-DMODE_OBSERVE"])]
    letters = "mvps" if tier == "quick" else string.ascii_lowercase
    # every letter that starts a mnemonic or a format is cheap; quick still does all of them for the lookup part
    letters = string.ascii_lowercase
    for ch in letters:
        units.append(("c18.lookup.%s" % ch, ["-DMODE_LOOKUP", "-DLETTER='%s'" % ch]))
    if only:
        import fnmatch
        units = [u for u in units if fnmatch.fnmatch(u[0], only)]

    def job(u):
        obs = u[0] == "c18.observe"
        return te.unit(u[0], "shared_c18.c", defs=u[1], unwind=n, checks="default", timeout=1500,
                       unwindset={"strcmp.0": 20, "strcasecmp.0": 12, "strcpy.0": 20},
                       isr="vf_isr" if obs else None, native_extra=("-pthread",) if obs else ())
    res = core.pmap(job, units)
    rep.add(res)
    audit = {"name": "c18.ir_audit", "text": "LLVM IR census and atomic-access audit", "status": "held" if not problems else "violated",
             "wall": time.time() - t0, "failed": [("audit", p) for p in problems], "nprops": accesses + len(mutable) + len(decls),
             "replay": {"reproduced": True, "text": "; ".join(problems)[:500], "bytes": "", "rc": None, "options": None, "output": "\n".join(problems)} if problems else None}
    rep.add([audit])
    expl = ("Reduced scope: general schedules are NOT explored (CBMC aborts on pthread harnesses over this code: 'pointer handling for concurrency is unsound'; no other engine is installed). "
            "One class of interleavings IS decided by solver (c18.observe): goto-instrument --isr inserts, before every access to the two index arrays, a nondeterministic load by a reader in another thread; during a build that reader sees in any entry only its initial (0 or F[k]) or final value F[k] -- no transient value. "
            "Decided sequentially by solver: S2 from arbitrary initial contents a build leaves F[k] (a function of the constant tables) in every entry it writes and nothing else changes, idempotently; S3 named rows are grouped by letter, so every entry is stored at most once per build; "
            "S4 every lookup returns the same result whether its index entry is 0 or F[k]. Audited syntactically on the LLVM IR of the current tree: S1 the only mutable static-storage objects are the two index arrays (plus the NOP byte arrays, referenced only through pointer-to-const), no non-re-entrant libc function is called; S5 every load/store through the two arrays is atomic. "
            "With per-location coherence of C11 atomics: every store by any thread writes F, every load returns 0 or F, lookups are insensitive to which, nothing else is shared. That last implication is an argument, not a query.")
    return rep.finish({"explanation": expl, "mutable_static_objects": mutable, "external_functions": decls, "atomic_accesses_checked": accesses},
                      tok.TOK_ASSUMPTIONS[1:2] + ["the final implication from S1-S5 to race freedom is an argument on the C11 memory model, not a solver verdict",
                                                  "races inside the C library and in code no query reaches are not covered"],
                      {"unwind": n, "letters": len(letters)},
                      "CBMC queries for build determinism/idempotence/grouping and per-letter lookup robustness; IR audit",
                      ["asm_create_instance", "asm_build_index_tables", "str_to_instr_key", "get_opd_format", "INSTR_TABLE", "OPD_FORMAT_TABLE"])
