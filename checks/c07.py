"""C07: no sequence of API calls writes outside the attached buffer."""
from vflib import gluechecks


def run(tier, only=None):
    q = []
    # (the history starts from an arbitrary reachable offset / fitting state, so H counts the calls after that)
    hs = [(1, 5), (1, 16)] if tier == "quick" else [(1, 5), (1, 16), (2, 3), (2, 5), (2, 16), (3, 5), (3, 8)]
    for h, c in hs:
        q.append({"name": "c07.history.h%d.c%d" % (h, c), "cfile": "glue_c07.c",
                  "defs": ["-DMODE_C07", "-DH=%d" % h, "-DKMAX=2", "-DNPROG=%d" % (h + 1), "-DGBUF=56", "-DLMAX=13", "-DCMAX=64",
                           "-DCFIX=%d" % c, "-DGLUE_NOWRITE"], "unwindset": {"nop_padding.1": (c - 1) // 11 + 2},
                  "timeout": 800 if tier == "quick" else 5400})
    return gluechecks.run_queries(
        "C07", tier, q,
        "buffer length n in 0..56, a history of H calls each chosen among set_chunk_size(0/1/c), set_offset(k in 0..n), asm_assemble_str, asm_assemble_string_counting_chunks(0/1/c), create+destroy of another instance; every program has up to 2 abstract lines that may be skipped, fail, or be an instruction of length 1..13",
        {"H": [h for h, _ in hs], "chunk_sizes": sorted({c for _, c in hs}), "buffer_max": 56,
         "outside": "offsets outside [0,n] (excluded by the property); histories longer than H; buffers longer than 56"},
        "one CBMC query per (history length, chunk size); every instruction write is checked by the stub (range and 20-byte reserve), every NOP write by comparing the buffer with its state at call entry; CBMC's own pointer/bounds checks catch writes outside the array",
        ["default CBMC memory-safety checks are on in this engine: a write through a pointer outside the caller's array is a CBMC failure"], only)
