"""C14: chunk counting reports exactly the boundary-crossing instructions."""
from vflib import gluechecks


def run(tier, only=None):
    cs = [2, 3, 5, 8, 16] if tier == "quick" else list(range(2, 25)) + [32, 64]
    q = []
    for c in cs:
        q.append({"name": "c14.count.c%d" % c, "cfile": "glue_c14.c",
                  "defs": ["-DKMAX=2", "-DNPROG=2", "-DNCALLS=2", "-DGBUF=64", "-DLMAX=13", "-DNFIXED=1", "-DSTARTMAX=%d" % min(2 * c, 40),
                           "-DCFIX=%d" % c, "-DCMAX=64", "-DGLUE_NOWRITE"], "timeout": 1500 if tier == "quick" else 3600})
    q.append({"name": "c14.bytes", "cfile": "glue_c14.c",
              "defs": ["-DKMAX=2", "-DNPROG=1", "-DNCALLS=1", "-DGBUF=40", "-DLMAX=4", "-DNFIXED=1", "-DSTARTMAX=6", "-DCFIX=3", "-DCMAX=64"]})
    q.append({"name": "c14.small_c", "cfile": "glue_c14.c",
              "defs": ["-DKMAX=2", "-DNPROG=2", "-DNCALLS=2", "-DGBUF=48", "-DLMAX=13", "-DNFIXED=1", "-DSTARTMAX=8", "-DCMAX=1", "-DGLUE_NOWRITE"]})
    return gluechecks.run_queries(
        "C14", tier, q,
        "per chunk size c: start offset over two chunk periods, two consecutive counting calls (second with c, 0 or 1) on programs of up to 2 abstract lines of length 1..13; c14.bytes: emitted bytes equal the plain code; c14.small_c: chunk sizes 0 and 1",
        {"chunk_sizes": cs, "lines_per_call": 2, "calls": 2, "outside": "chunk sizes not enumerated; buffer length is fixed in these queries (room is C07's subject)"},
        "one CBMC query per chunk size", [], only)
