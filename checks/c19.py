"""C19: the file entry points equal their in-memory counterparts."""
from vflib import oschecks


def run(tier, only=None):
    pages = [8] if tier == "quick" else [8, 5, 4]    # (page size 16 exceeds 14 GB in the propositional reduction)
    q = []
    for p in pages:
        q.append({"name": "c19.file.p%d" % p, "cfile": "glue_c19.c", "mem_buffer": None, "stubs": False, "replace": oschecks.REC,
                  "defs": ["-DOS_PAGE=%d" % p, "-DOS_MAXOBJ=%d" % (4 * p + 16)]})
    q.append({"name": "c19.binfile", "cfile": "glue_c19b.c", "mem_buffer": None, "stubs": False, "replace": [],
              "defs": ["-DBMAX=%d" % (24 if tier == "quick" else 48)]})
    return oschecks.run_queries(
        "C19", tier, q,
        "file size 0..3 model pages (every size, so every size near each page multiple), arbitrary non-NUL contents (with or without final newline), file present or missing, plain or counting entry point with arbitrary chunk size, arbitrary result of the in-memory entry point; binary output: offset 0..BMAX, arbitrary buffer bytes, output file with arbitrary previous contents of 0..60 bytes (fopen mode semantics: w truncates, a appends, r+ overwrites)",
        {"model_page_sizes": pages, "file_size_max_pages": 3,
         "outside": "files longer than 3 pages; the in-memory assembly itself (replaced by a recorder here: C01-C16 cover it)"},
        "one CBMC query per model page size: the text handed to the in-memory entry point is the file's contents, NUL-terminated inside the mapped pages; results and counts are passed through; a missing file yields EXIT_FAILURE; an empty file is the empty program",
        ["asm_mmap_file", "asm_assemble_file", "asm_assemble_file_counting_chunks", "asm_create_bin_file", "asm_get_offset", "asm_get_code"], only)
