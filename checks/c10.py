"""C10: malformed or unencodable lines are rejected and emit nothing."""
import fnmatch
import json
import os

from vflib import core, enc, families, glue, report, tok
from checks.c01 import FUNCS


def run(tier, only=None):
    quick = tier == "quick"
    rep = report.Report("C10", tier, "model_checking")
    kinds = json.load(open(os.path.join(core.VERIF, "spec", "kinds.json")))
    # --- text level: the whole real pipeline on malformed skeletons ------
    eng = enc.EncEngine("C10", tier)
    sks = families.c10_families(quick, kinds)
    if only:
        sks = [s for s in sks if fnmatch.fnmatch(s.name, only)]
    # --- lookup level: every operand-kind string per mnemonic --------------
    te = tok.TokEngine("C10", tier)
    mns = sorted(kinds)
    if quick:
        mns = [m for i, m in enumerate(mns) if i % 6 == 0 or m in ("clflush", "prefetcht0", "mov", "add", "jmp", "movq", "vpaddd", "push")]
    jobs = []
    for mn in mns:
        for first in ("0", "r", "v", "y", "m", "i"):
            defs = ['-DMNEMONIC="%s"' % mn, "-DFIRST=%s" % ("0" if first == "0" else "'%s'" % first),
                    "-DVALID_LIST=%s" % "".join('"%s",' % t for t in kinds[mn])]
            jobs.append(("c10.kinds.%s.%s" % (mn, first), "tok_kinds.c", defs))
    units = [("c10.strtoreg", "tok_strtoreg.c", [], ("enc.c", "x86dec.c", "vf_main.c", "libc_models.c")),
             ("c10.nonprint", "tok_filter.c", ["-DMODE_NONPRINT", "-DSTRICT_NONPRINT", "-DNMAX=%d" % (24 if quick else 48)], None)]
    if only:
        jobs = [j for j in jobs if fnmatch.fnmatch(j[0], only)]
        units = [u for u in units if fnmatch.fnmatch(u[0], only)]

    def kjob(j):
        return te.unit(j[0], j[1], defs=j[2], unwind=12, checks="default", timeout=600,
                       unwindset={"str_to_instr_key.0": te.tb["instr_rows"] + 8, "str_to_instr_key.1": te.tb["instr_rows"] + 8,
                                  "get_opd_format.0": te.tb["opd_rows"] + 4})

    def ujob(u):
        kw = {}
        if u[3]:
            kw["common"] = u[3]
        rp = [("__CPROVER_file_local_parser_c_line_to_instr", "stub_line_to_instr")] if u[1] == "tok_filter.c" else []
        return te.unit(u[0], u[1], defs=u[2], unwind=110, checks="default", timeout=1500, replace=rp,
                       unwindset={"find_reg.0": te.tb["reg_rows"] + 2, "strcmp.0": 12, "strstr.0": 110, "strstr.1": 110}, **kw)
    # --- position and mode (API layer) -------------------------------------
    ge = glue.GlueEngine("C10", tier)
    gq = [("c10.position.c%d" % c, ["-DKMAX=3", "-DNPROG=1", "-DGBUF=64", "-DLMAX=13", "-DCFIX=%d" % c, "-DGLUE_NOWRITE"]) for c in ([5] if quick else [3, 5, 16])]
    if only:
        gq = [g for g in gq if fnmatch.fnmatch(g[0], only)]
    def gjob(g):
        return ge.run(g[0], "glue_c10.c", defs=g[1], unwind=20,
                      unwindset={"assemble_all.0": 5, "__CPROVER_file_local_parser_c_assemble_with_chunk_fitting.0": 4, "nop_padding.1": 3})
    # one pool: the long queries first
    rep.add(core.pmap_mixed([(gjob, g) for g in gq] + [(ujob, u) for u in units] + [(kjob, j) for j in jobs] +
                            [(lambda sk: eng.run_family([sk])[0], sk) for sk in sks]))
    for k, ok, r in eng.confirm_known(sks):
        rep.known(k, ok, r)
    return rep.finish(
        {"text_level_skeletons": len(sks), "lookup_level_queries": len(jobs), "mnemonics_lookup_level": len(mns),
         "symbolic_per_query": "text level: registers of every class/width/number in each operand slot, all options; lookup level: every operand-kind string of up to 4 letters over {r,v,y,m,i} with the first letter fixed per query; strtoreg: every string of 1..5 printable characters; nonprint: arbitrary bytes with a byte > 0x7e at an arbitrary position before the line end; position: failing line at any position of a 3-line program in plain, fitting and counting mode"},
        enc.ENC_ASSUMPTIONS + tok.TOK_ASSUMPTIONS + ["INVALID operand-kind combinations = those for which nasm accepts no size assignment (spec/kinds.json, regenerated and compared at setup); 'r' covers general and MMX registers",
                                                    "a byte above 0x7e inside a ';' comment is not required to be rejected (the statement speaks of the line's instruction text)"],
        {"unwind": "see C01; kinds units unwind 12 + table bounds", "outside": "4-operand kind strings other than the four the format table knows; register-name tokens longer than 5 characters at the str_to_reg level (text-level skeletons cover xmm100/ymm16/r10l...)"},
        "one CBMC query per malformed skeleton (must return EXIT_FAILURE and leave the buffer unchanged), per (mnemonic, first kind letter), per unit",
        FUNCS + ["str_to_reg", "find_reg", "filter_assembly_str_fsa", "str_to_instr"])
