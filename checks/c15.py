"""C15: an instance's earlier history does not influence later results."""
from vflib import gluechecks


def run(tier, only=None):
    q = []
    # (the history starts from an arbitrary reachable offset / fitting state, so H counts the calls after that)
    hs = [(1, 5), (1, 3), (2, 5)] if tier == "quick" else [(1, 3), (1, 5), (1, 16), (2, 5), (2, 16), (3, 5)]
    quick = tier == "quick"
    for h, c in hs:
        # per-change tier: one line per program and a 32-byte buffer (a failing call is a failing line; the final call
        # needs one instruction to show a wrong chunk setting, mode or offset)
        q.append({"name": "c15.history.h%d.c%d" % (h, c), "cfile": "glue_c07.c",
                  "defs": ["-DMODE_C15", "-DH=%d" % h, "-DKMAX=%d" % (1 if quick else 2), "-DNPROG=%d" % (h + 1), "-DGBUF=%d" % (32 if quick else 48), "-DLMAX=4", "-DCMAX=64",
                           "-DCFIX=%d" % c, "-DCFIX2=%d" % (3 if c != 3 else 7)], "unwindset": {"nop_padding.1": (c - 1) // 11 + 2},
                  "timeout": 800 if tier == "quick" else 5400})
    return gluechecks.run_queries(
        "C15", tier, q,
        "instance A lives through a history of H arbitrary calls (chunk size, offset, plain/fitting assembly, counting, failing calls, other instances created and destroyed), then receives explicit options, optionally a chunk setting, an explicit offset and a final assemble call; instance B is fresh with the same options, the current chunk setting and offset; return value, final offset and bytes are compared",
        {"H": [h for h, _ in hs], "chunk_sizes": sorted({c for _, c in hs}), "buffer_max": 48},
        "one CBMC query per (history length, chunk size)", [], only)
