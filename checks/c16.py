"""C16: letter case, spacing, comments, labels and number base do not change the code."""
import fnmatch

from vflib import core, enc, families, report, tok
from checks.c01 import FUNCS

LTI = [("__CPROVER_file_local_parser_c_line_to_instr", "stub_line_to_instr")]


def run(tier, only=None):
    quick = tier == "quick"
    rep = report.Report("C16", tier, "model_checking")
    eng = enc.EncEngine("C16", tier)
    if quick:
        eng.timeout = 520      # the two-instance mov r64 pairs need 120-300 s depending on the load of the machine
    sks = families.c16_base_families(quick)
    if only:
        sks = [s for s in sks if fnmatch.fnmatch(s.name, only)]
    te = tok.TokEngine("C16", tier)
    n_case, n_blank, n_comment, n_skip = (28, 14, 20, 40) if quick else (64, 24, 40, 40)
    units = [("c16.case", ["-DMODE_CASE", "-DNMAX=%d" % n_case]),
             ("c16.blank", ["-DMODE_BLANK", "-DNMAX=%d" % n_blank]),
             ("c16.comment_crlf", ["-DMODE_COMMENT", "-DNMAX=%d" % n_comment]),
             ("c16.skip_lines", ["-DMODE_SKIP", "-DNMAX=%d" % n_skip]),
             # runs of 100+ blanks/tabs at constant positions (before the mnemonic, after the separating blank, both)
             ("c16.blankrun.lead", ["-DMODE_BLANKRUN", "-DRUN_A=100", "-DRUN_B=0", "-DBR_K=6", "-DNMAX=124"]),
             ("c16.blankrun.mid", ["-DMODE_BLANKRUN", "-DRUN_A=0", "-DRUN_B=100", "-DBR_K=6", "-DNMAX=124"])]
    if not quick:
        units.append(("c16.blankrun.both", ["-DMODE_BLANKRUN", "-DRUN_A=60", "-DRUN_B=60", "-DBR_K=10", "-DNMAX=148"]))
    if only:
        units = [u for u in units if fnmatch.fnmatch(u[0], only)]

    # valid lines (placeholder registers are real names) for confirming a filter-level counterexample through the public API
    corpus = sorted({s.text().strip() for s in families.c01_families(True) + families.c04_families(True) + families.c03_families(True)[::3] +
                     families.c05_families(True)[::8] + families.c02_families(True, pool=True)[::9]})

    def confirm(mode):
        def fn(engine, tag, cfile, defs, inputs, res):
            rp = engine.replay(tag, cfile, defs, inputs, ("vf_main.c", "libc_models.c"))
            if rp["reproduced"]:
                return rp
            ok, detail = tok.rel_confirm(engine, mode, corpus)
            rp2 = dict(rp)
            rp2.update(reproduced=ok, output=detail, text=detail[:200])
            return rp2
        return fn

    def ujob(u):
        mode = {"c16.case": "case", "c16.blank": "blank", "c16.comment_crlf": "comment"}.get(u[0], "blankrun" if u[0].startswith("c16.blankrun") else None)
        # string-loop bounds follow the line length of the unit (the unwinding assertions check that they suffice)
        nmax = int([d for d in u[1] if d.startswith("-DNMAX=")][0][7:])
        sb = nmax + 12
        return te.unit(u[0], "tok_filter.c", defs=u[1], replace=LTI, unwind=sb, checks="default", timeout=700 if quick else 3000,
                       unwindset={"strstr.0": sb, "strstr.1": sb, "strlen.0": sb, "strchr.0": sb},
                       replay_fn=confirm(mode) if mode else None,
                       extra_flags=("--object-bits", "10") if mode == "blankrun" else ())
    # one pool: the filter-level units (long) first, then the number-base pairs
    rep.add(core.pmap_mixed([(ujob, u) for u in units] + [(lambda sk: eng.run_family([sk])[0], sk) for sk in sks]))
    return rep.finish(
        {"symbolic_per_query": "case: a line of up to %d arbitrary printable characters with an arbitrary subset of its letters case-flipped; blank: a line of up to %d characters with spaces/tabs inserted at arbitrary places before the mnemonic and after the first separator; comment: arbitrary trailing ';' comment and LF vs CRLF; skip_lines: arbitrary label / section / global lines followed by an instruction; base: the same symbolic value written in hexadecimal, in decimal and with leading zeros (immediates, displacements, branch targets) on two instances with the same options" % (n_case // 2, n_blank // 2),
         "lemma": "L-filter: the tokenizer receives the same string for both spellings, and line_to_instr sees nothing else of the raw text; hence identical bytes"},
        enc.ENC_ASSUMPTIONS + tok.TOK_ASSUMPTIONS,
        {"line_length_case": n_case // 2, "line_length_blank": n_blank // 2, "outside": "a TAB as the only separator between mnemonic and first operand (not one of the rewritings the property lists); lines longer than the stated bounds"},
        "relational CBMC queries: two spellings, one verdict that the observable result is identical",
        FUNCS + ["filter_assembly_str_fsa", "str_to_instr", "imm_tok", "find_add_mem", "find_mem_const"])
