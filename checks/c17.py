"""C17: OS resource failures are reported, never crash or corrupt."""
from vflib import oschecks


def run(tier, only=None):
    q = [
        {"name": "c17.managed.%s" % mname, "cfile": "glue_c17.c", "mem_buffer": 40, "stubs": True,
         "defs": ["-DSCENARIO=0", "-DGLUE_MANAGED", "-DGLUE_NOWRITE", "-DKMAX=2", "-DNPROG=2", "-DLMAX=13", "-DOS_MAXOBJ=160", "-DGBUF=8", "-DMODEFIX=%d" % mode],
         "timeout": 800 if tier == "quick" else 3000} for mode, mname in ((0, "plain"), (1, "fitting"), (2, "counting"))] + [
        {"name": "c17.external", "cfile": "glue_c17.c", "mem_buffer": 40, "stubs": True,
         "defs": ["-DSCENARIO=1", "-DGLUE_MANAGED", "-DGLUE_NOWRITE", "-DKMAX=1", "-DNPROG=1", "-DOS_MAXOBJ=160", "-DGBUF=8"]},
        {"name": "c17.file", "cfile": "glue_c17.c", "mem_buffer": 40, "stubs": True, "replace": oschecks.REC,
         "defs": ["-DSCENARIO=2", "-DOS_MAXOBJ=48", "-DOS_PAGE=8", "-DGBUF=8", "-DKMAX=1", "-DNPROG=1"]},
        {"name": "c17.binfile", "cfile": "glue_c19b.c", "mem_buffer": None, "stubs": False, "replace": [],
         "defs": ["-DBMAX=16", "-DWITH_FAULTS"]},
    ]
    return oschecks.run_queries(
        "C17", tier, q,
        "fault schedule: for each of malloc, mmap, mremap, munmap, open, fstat, close, fopen, fwrite, fclose the index (none, 1st..4th) of the call that fails, all kinds independently; short-write length of a failing fwrite; managed scenario: two assemble calls in any of the three modes from arbitrary offsets with growth; file scenario: file size 0..3 model pages, plain and counting entry points; binary output: offset 0..16, arbitrary buffer bytes",
        {"failing_occurrence_max": 4, "scenarios": ["create+assemble-with-growth+destroy (managed)", "create+destroy (caller buffer)", "file assembly", "binary output"],
         "outside": "failures beyond the 4th call of one kind; read errors on a mapped file"},
        "one CBMC query per scenario; every single failure and every combination across kinds is inside the query",
        ["asm_create_instance", "asm_destroy_instance", "check_len_or_resize", "asm_assemble_str", "asm_assemble_string_counting_chunks",
         "asm_mmap_file", "asm_assemble_file", "asm_assemble_file_counting_chunks", "asm_create_bin_file", "asm_get_code"], only)
