"""C08: the library-managed buffer grows transparently."""
from vflib import oschecks


def run(tier, only=None):
    q = []
    combos = [(40, 5)] if tier == "quick" else [(40, 5), (40, 16), (24, 3), (64, 8)]
    for mb, c in combos:
        for mode, mname in ((0, "plain"), (1, "fitting"), (2, "counting")):     # one query per assemble mode (they run in parallel)
            q.append({"name": "c08.growth.q%d.c%d.%s" % (mb, c, mname), "cfile": "glue_c08.c", "mem_buffer": mb, "stubs": True,
                      "defs": ["-DGLUE_MANAGED", "-DGLUE_NOWRITE", "-DKMAX=2", "-DNPROG=2", "-DNCALLS=2", "-DLMAX=13",
                               "-DOS_MAXOBJ=%d" % (mb * 3 + 40), "-DBIG=%d" % (mb * 3 + 40), "-DGBUF=8", "-DCFIX=%d" % c, "-DMODEFIX=%d" % mode],
                      "timeout": 1500 if tier == "quick" else 5400})
    if tier != "quick":
        q.append({"name": "c08.growth.q40.c5.k3", "cfile": "glue_c08.c", "mem_buffer": 40, "stubs": True,
                  "defs": ["-DGLUE_MANAGED", "-DGLUE_NOWRITE", "-DKMAX=3", "-DNPROG=3", "-DNCALLS=3", "-DLMAX=13", "-DOS_MAXOBJ=220",
                           "-DBIG=220", "-DGBUF=8", "-DCFIX=5"], "timeout": 7200})
    return oschecks.run_queries(
        "C08", tier, q,
        "growth quantum MEM_BUFFER scaled to q bytes by the build wrapper (initial buffer q+20); NCALLS successive calls, each from an arbitrary offset inside what is currently allocated, on a program of up to 2 abstract lines of length 1..13; the three assemble modes (plain, fitting with chunk size c, counting with c); mremap moving or growing in place; the same calls on a large caller buffer as reference",
        {"MEM_BUFFER_scaled_to": [m for m, _ in combos], "real_MEM_BUFFER": 6000, "calls": 2, "lines_per_call": 2,
         "outside": "the real quantum 6000 (the growth code is the same arithmetic on the constant; the scaling is the stated bound), more than NCALLS growth steps"},
        "one CBMC query per (scaled quantum, chunk size): offsets, per-instruction positions and chunk counts equal the reference instance's; the library gives mremap the mapping's current address and size and afterwards uses the address it got back; asm_get_code returns the live mapping; protection is RWX",
        ["asm_create_instance", "asm_destroy_instance", "check_len_or_resize", "assemble", "assemble_with_chunk_fitting",
         "assemble_counting_chunks", "assemble_all", "asm_assemble_str", "asm_assemble_string_counting_chunks", "asm_get_code",
         "asm_set_offset", "asm_set_chunk_size"], only)
