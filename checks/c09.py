"""C09: arbitrary input text never causes memory errors, crashes or hangs."""
import fnmatch

from vflib import core, enc, families, report, tok
from checks.c01 import FUNCS

LTI = [("__CPROVER_file_local_parser_c_line_to_instr", "stub_line_to_instr")]


def leaf_replay(strings_from):
    """leaf counterexamples count only if a line built around the operand
    string reproduces through the public API (ASan/UBSan build)"""
    def fn(eng, tag, cfile, defs, inputs, res):
        off, ln = inputs.get(0, 1), inputs.get(1, 0)
        s = bytes((inputs.get(4 + off + i, 0x20) & 0xff) for i in range(ln))
        for d in defs:
            if d.startswith("-DFIRST=") and s:
                s = bytes([int(d[8:])]) + s[1:]
        cands = []
        cands.append(s + b"\n")
        cands.append(s + b" rax, rcx\n")
        cands.append(b"nop\n" + s + b"\nnop\n")
        # an operand that a keyword scan leaves blank or empty
        for kwd in (b"push byte", b"mov rax, qword", b"jmp short", b"inc word", b"jmp far qword"):
            cands.append(kwd + s + b"\n")
        for pre in (b"mov rax, ", b"mov ", b"lea rax, ", b"jmp ", b"add qword ", b"vpaddd ymm0, ymm1, ", b""):
            for post in (b"", b", rax", b", 1"):
                cands.append(pre + s + post + b"\n")
        # the same operand at the very end of a line whose filtered length is the maximum the line
        # buffer holds (and one/two less): a first operand padded with leading zeros
        for total in (99, 98, 97, 96):
            for head in (b"mov [rax+0x", b"add qword [rax+0x"):
                tail = b"1], " + s
                filtered = len(head.replace(b" ", b"")) + 1 + len(tail.replace(b" ", b""))
                pad = total - filtered
                if pad > 0:
                    cands.append(head + b"0" * pad + tail + b"\n")
        ok, detail = tok.api_confirm(eng, cands, tag)
        return {"reproduced": ok, "output": detail, "args": [], "text": repr(s), "bytes": "", "rc": None, "options": None}
    return fn


def run(tier, only=None):
    quick = tier == "quick"
    rep = report.Report("C09", tier, "model_checking")
    te = tok.TokEngine("C09", tier)
    leaflen = 10 if quick else 14
    # unit tuples: (name, harness, defs, replaced calls, kind, string bound, timeout).  The string bound is the unwinding
    # bound of the libc string loops (strstr, strlen, strchr, strtok_r, strtoul): the length of the longest string
    # the unit can hand them plus a margin; the unwinding assertions check that it suffices.
    fl = 40 if quick else 120
    units = [("c09.filter", "tok_filter.c", ["-DMODE_SAFE", "-DNMAX=%d" % fl], LTI, None, max(fl, 20) + 6, 700 if quick else 5400),
             # the end of the line buffer: a fixed significant prefix of 90 characters, then 16 arbitrary bytes
             ("c09.filter.boundary", "tok_filter.c", ["-DMODE_SAFE", "-DNMAX=106", "-DPREFIX_LEN=90"], LTI, None, 112, 700 if quick else 3000)]
    # (the composed operand splitter does not finish within the per-change budget even for two one-character operands:
    #  thorough tier only; per change its parts are decided one by one by the leaf queries)
    opds = [] if quick else [(2, 1), (3, 1), (2, 2), (5, 1)]
    for k, w in opds:
        # (the keyword scanner is replaced by its contract stub here; it is decided on its own by c09.leaf.kw.*)
        units.append(("c09.opds.%dx%d" % (k, w), "tok_opds.c", ["-DNOPD=%d" % k, "-DOPW=%d" % w, "-DKW_STUB"],
                      [("__CPROVER_file_local_tokenizer_c_check_for_keyword", "stub_check_for_keyword")], None, 4 + k * (w + 1) + 4, 700 if quick else 5400))
    # how many operands the splitter is prepared to store: concrete one-letter operands, 1..7 of them
    for k in range(1, 8):
        units.append(("c09.opcount.%d" % k, "tok_opds.c", ["-DNOPD=%d" % k, "-DOPW=1", "-DOPS_CONCRETE"], [], None, 4 + 2 * k + 4, 300))
    firsts = list(range(0x5b, 0x7b))
    for c in firsts:
        units.append(("c09.leaf.instrkey.%02x" % c, "tok_leaf.c", ["-DT_INSTRKEY", "-DLEAFLEN=12", "-DFIRST=%d" % c], [], "leaf", 20, 600))
    for t in ("T_REGSTR", "T_ADD", "T_CONST", "T_INDEX", "T_TYPE", "T_KW", "T_MEMTOK", "T_IMMTOK", "T_STRTOREG"):
        ll = 5 if t == "T_STRTOREG" else leaflen if t not in ("T_KW", "T_MEMTOK") else ((4 if quick else 8) if t == "T_KW" else min(leaflen, 9))
        for place in (0, 1):
            for ln in range(0 if t not in ("T_INDEX", "T_MEMTOK", "T_IMMTOK") else 1, ll + 1):
                units.append(("c09.leaf.%s.p%d.l%d" % (t[2:].lower(), place, ln), "tok_leaf.c",
                              ["-D" + t, "-DLEAFLEN=%d" % ll, "-DLEN_FIX=%d" % ln, "-DPLACE=%d" % place], [], "leaf", ln + 3, 600 if quick else 3000))
    if only:
        units = [u for u in units if fnmatch.fnmatch(u[0], only)]

    def ujob(u):
        sb = u[5]
        return te.unit(u[0], u[1], defs=u[2], replace=u[3], unwind=sb + 2, checks="full", timeout=u[6],
                       hunt={"cap": 6, "timeout": 15, "keep": ("asm_build_index_tables",)} if u[4] == "leaf" else None,
                       replay_fn=leaf_replay(None) if u[4] == "leaf" else None,
                       unwindset={"strstr.0": sb, "strstr.1": sb, "strlen.0": sb, "strchr.0": sb, "strtok_r.0": sb, "strtok_r.1": sb,
                                  "find_reg.0": te.tb["reg_rows"] + 2, "strcmp.0": 12, "vf_model_strtoul.0": 30, "vf_model_strtoul.1": 30,
                                  "__CPROVER_file_local_tokenizer_c_operand_tok.0": 8,
                                  "str_to_instr_key.0": te.tb["instr_rows"] + 8, "str_to_instr_key.1": te.tb["instr_rows"] + 8})
    # encoder/emitter paths on well-formed lines with all checks enabled
    eng = enc.EncEngine("C09", tier)
    pool = families.c01_families(True) + families.c04_families(True) + families.c02_families(True, pool=True) + families.c03_families(True) + \
        [s for s in families.c05_families(True)]
    step = 16 if quick else 2
    sks = pool[::step]
    if only:
        sks = [s for s in sks if fnmatch.fnmatch("c09.enc." + s.name, only)]
    # one pool for both kinds of query (the long text-layer units first, so that they overlap with the many short ones)
    jobs = sorted([("u", u) for u in units], key=lambda j: 0 if j[1][0].startswith("c09.filter") or ".kw." in j[1][0] or ".memtok." in j[1][0] else 1) + \
        [("s", sk) for sk in sks]
    rep.add(core.pmap(lambda j: ujob(j[1]) if j[0] == "u" else eng.run_safety(j[1]), jobs))
    return rep.finish(
        {"units": [u[0] for u in units], "enc_skeletons_with_full_checks": len(sks),
         "symbolic_per_query": "filter: every byte string of up to %d bytes, and every string of a fixed 90-character significant prefix followed by up to 16 arbitrary bytes (crossing the end of the 100-byte line buffer), through the line filter and str_to_instr's line skipping, with the precondition of line_to_instr checked; opds: 'mov o1,..,ok' with k operands of arbitrary non-separator characters through the real instr_tok/operand_tok and their callees, the keyword scanner replaced by its contract stub (it is decided by the kw leaf); leaves: each scanner on an arbitrary printable string of every length up to %d, placed at the start and flush against the end of the line buffer (one query per length and placement); enc: well-formed skeletons of C01-C05 (symbolic registers/numbers/options) with CBMC's pointer, bounds, overflow, shift and conversion checks on every library statement" % (fl, leaflen)},
        tok.TOK_ASSUMPTIONS + enc.ENC_ASSUMPTIONS[1:5] + ["termination = unwinding assertions hold within the stated bounds"],
        {"filter_bytes": fl, "filter_boundary": "90 fixed + 16 arbitrary bytes", "leaf_string_length": leaflen, "operands": ["%d x %d chars" % kw for kw in opds],
         "outside": "whole-line symbolic text through the complete tokenizer (out of reach, DESIGN.md section 2): the composition of the units is an argument, each unit is a verdict; strings longer than the unit bounds"},
        "one CBMC query per unit / skeleton with --bounds/pointer/overflow/shift/conversion checks and unwinding assertions",
        FUNCS + ["filter_assembly_str_fsa", "str_to_instr", "instr_tok", "operand_tok", "check_operand_type", "check_for_keyword", "imm_tok", "mem_tok",
                 "get_reg_str", "find_add_mem", "find_mem_const", "get_index_reg", "copy_index_reg", "check_sib_disp", "get_operand_type", "str_to_reg", "find_reg"])
