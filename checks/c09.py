"""C09: arbitrary input text never causes memory errors, crashes or hangs."""
import fnmatch

from vflib import core, enc, families, report, tok
from checks.c01 import FUNCS

LTI = [("__CPROVER_file_local_parser_c_line_to_instr", "stub_line_to_instr")]


def leaf_replay(strings_from):
    """leaf counterexamples count only if a line built around the operand
    string reproduces through the public API (ASan/UBSan build)"""
    def fn(eng, tag, cfile, defs, inputs, res):
        off, ln = inputs.get(0, 1), inputs.get(1, 0)
        s = bytes((inputs.get(4 + off + i, 0x20) & 0xff) for i in range(ln))
        for d in defs:
            if d.startswith("-DFIRST=") and s:
                s = bytes([int(d[8:])]) + s[1:]
        cands = []
        cands.append(s + b"\n")
        cands.append(s + b" rax, rcx\n")
        cands.append(b"nop\n" + s + b"\nnop\n")
        for pre in (b"mov rax, ", b"mov ", b"lea rax, ", b"jmp ", b"add qword ", b"vpaddd ymm0, ymm1, ", b""):
            for post in (b"", b", rax", b", 1"):
                cands.append(pre + s + post + b"\n")
        # the same operand at the very end of a line whose filtered length is the maximum the line
        # buffer holds (and one/two less): a first operand padded with leading zeros
        for total in (99, 98, 97, 96):
            for head in (b"mov [rax+0x", b"add qword [rax+0x"):
                tail = b"1], " + s
                filtered = len(head.replace(b" ", b"")) + 1 + len(tail.replace(b" ", b""))
                pad = total - filtered
                if pad > 0:
                    cands.append(head + b"0" * pad + tail + b"\n")
        ok, detail = tok.api_confirm(eng, cands, tag)
        return {"reproduced": ok, "output": detail, "args": [], "text": repr(s), "bytes": "", "rc": None, "options": None}
    return fn


def run(tier, only=None):
    quick = tier == "quick"
    rep = report.Report("C09", tier, "model_checking")
    te = tok.TokEngine("C09", tier)
    leaflen = 10 if quick else 14
    units = [
        ("c09.filter", "tok_filter.c", ["-DMODE_SAFE", "-DNMAX=%d" % (104 if quick else 120)], LTI, None, 110, 3000),
        ("c09.opds.5x1", "tok_opds.c", ["-DNOPD=5", "-DOPW=1"], [], None, 110, 3000),
        ("c09.opds.2x3", "tok_opds.c", ["-DNOPD=2", "-DOPW=3"], [], None, 110, 3000),
        ("c09.opds.6x1", "tok_opds.c", ["-DNOPD=6", "-DOPW=1"], [], None, 110, 3000),
    ]
    firsts = list(range(0x5b, 0x7b))
    for c in firsts:
        units.append(("c09.leaf.instrkey.%02x" % c, "tok_leaf.c", ["-DT_INSTRKEY", "-DLEAFLEN=12", "-DFIRST=%d" % c], [], "leaf", 110, 1200))
    for t in ("T_REGSTR", "T_ADD", "T_CONST", "T_INDEX", "T_TYPE", "T_KW", "T_MEMTOK", "T_IMMTOK", "T_STRTOREG"):
        ll = leaflen if t not in ("T_KW", "T_MEMTOK") else (7 if t == "T_KW" else min(leaflen, 9))
        units.append(("c09.leaf.%s" % t[2:].lower(), "tok_leaf.c", ["-D" + t, "-DLEAFLEN=%d" % ll], [], "leaf", 110, 3000))
    if only:
        units = [u for u in units if fnmatch.fnmatch(u[0], only)]

    def ujob(u):
        return te.unit(u[0], u[1], defs=u[2], replace=u[3], unwind=u[5], checks="full", timeout=u[6],
                       hunt={"cap": 6, "timeout": 60, "keep": ("asm_build_index_tables",)} if u[4] == "leaf" else None,
                       replay_fn=leaf_replay(None) if u[4] == "leaf" else None,
                       unwindset={"strstr.0": 110, "strstr.1": 110, "strlen.0": 110, "strchr.0": 110, "strtok_r.0": 110, "strtok_r.1": 110,
                                  "find_reg.0": te.tb["reg_rows"] + 2, "strcmp.0": 12, "vf_model_strtoul.0": 30, "vf_model_strtoul.1": 30,
                                  "__CPROVER_file_local_tokenizer_c_operand_tok.0": 8,
                                  "str_to_instr_key.0": te.tb["instr_rows"] + 8, "str_to_instr_key.1": te.tb["instr_rows"] + 8})
    rep.add(core.pmap(ujob, units))
    # encoder/emitter paths on well-formed lines with all checks enabled
    eng = enc.EncEngine("C09", tier)
    pool = families.c01_families(True) + families.c04_families(True) + families.c02_families(True) + families.c03_families(True) + \
        [s for s in families.c05_families(True)]
    step = 9 if quick else 2
    sks = pool[::step]
    if only:
        sks = [s for s in sks if fnmatch.fnmatch("c09.enc." + s.name, only)]
    rep.add(core.pmap(eng.run_safety, sks))
    return rep.finish(
        {"units": [u[0] for u in units], "enc_skeletons_with_full_checks": len(sks),
         "symbolic_per_query": "filter: every byte string of up to 104 bytes through the line filter and str_to_instr's line skipping, with the precondition of line_to_instr checked; opds: 'mov o1,..,ok' with k up to 6 operands of arbitrary non-separator characters through the real instr_tok/operand_tok and all callees; leaves: each scanner on an arbitrary printable string of up to %d characters at an arbitrary position of the line buffer; enc: well-formed skeletons of C01-C05 (symbolic registers/numbers/options) with CBMC's pointer, bounds, overflow, shift and conversion checks on every library statement" % leaflen},
        tok.TOK_ASSUMPTIONS + enc.ENC_ASSUMPTIONS[1:5] + ["termination = unwinding assertions hold within the stated bounds"],
        {"filter_bytes": 104 if quick else 120, "leaf_string_length": leaflen, "operands": "up to 6 x 1 char, 2 x 3 chars",
         "outside": "whole-line symbolic text through the complete tokenizer (out of reach, DESIGN.md section 2): the composition of the units is an argument, each unit is a verdict; strings longer than the unit bounds"},
        "one CBMC query per unit / skeleton with --bounds/pointer/overflow/shift/conversion checks and unwinding assertions",
        FUNCS + ["filter_assembly_str_fsa", "str_to_instr", "instr_tok", "operand_tok", "check_operand_type", "check_for_keyword", "imm_tok", "mem_tok",
                 "get_reg_str", "find_add_mem", "find_mem_const", "get_index_reg", "copy_index_reg", "check_sib_disp", "get_operand_type", "str_to_reg", "find_reg"])
