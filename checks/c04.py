"""C04: MMX/SSE/AVX/AVX2/BMI2 register forms."""
import fnmatch
from vflib import core, enc, families, report

FUNCS = ["asm_create_instance", "asm_mov_imm", "asm_sib_index_base_swap", "asm_sib_no_base", "asm_set_offset",
         "asm_assemble_str", "assemble_all", "str_to_instr", "filter_assembly_str_fsa", "line_to_instr", "instr_tok",
         "operand_tok", "check_for_keyword", "get_operand_type", "check_operand_type", "get_reg_str", "imm_tok",
         "get_opd_format", "str_to_instr_key", "all_opd_str_to_reg", "check_registers", "encode_offset", "encode_imm",
         "encode_operands", "get_reg", "get_rex_prefix", "get_opcode_offset", "assemble", "check_len_or_resize",
         "assemble_asm", "assemble_instr", "assemble_mem_disp", "assemble_imm", "assemble_const", "asm_get_offset",
         "INSTR_TABLE", "OPD_FORMAT_TABLE"]


def run(tier, only=None):
    rep = report.Report("C04", tier, "model_checking")
    eng = enc.EncEngine("C04", tier)
    sks = families.c04_families(tier == "quick")
    # vector / VEX forms with a memory source or destination: the R/X/B (REX and inverted VEX) extension bits must
    # select the written base and index whatever rewriting the addressing options apply (the full shape space is C02's;
    # here the shapes that exercise X, B and the index->base rewriting)
    import copy
    shapes = ("b_s1_hex", "bpixs_s8_hex", "sxi_s1_hex", "sxi_s2_hex", "bpd_s1_hex") if tier == "quick" else None
    for m in families.c02_families(True, pool=True):
        if m.family.split(".")[0] in ("avx", "bmi", "sse", "mmx", "adx") and (shapes is None or m.name.endswith(shapes)):
            m = copy.deepcopy(m)
            m.name = "c04.mem." + m.name[4:]
            sks.append(m)
    if only:
        sks = [s for s in sks if fnmatch.fnmatch(s.name, only)]
    rep.add(eng.run_family(sks))
    for k, ok, r in eng.confirm_known(sks):
        rep.known(k, ok, r)
    return rep.finish(
        {"skeletons": [s.name for s in sks],
         "symbolic_per_query": "every register operand over all widths 8/16/32/64, numbers 0-15 and the high-byte registers (restricted only by the form's size rule and x86-64 encodability); all 12 option combinations through the real setters; arbitrary prior buffer contents"},
        enc.ENC_ASSUMPTIONS,
        {"unwind_default": 24, "unwindset": eng.uw, "start_offset": 3, "buffer_len": 72,
         "outside": "spellings other than the placeholder text (TOK lemmas), forms not in vflib/forms.py"},
        "one CBMC query per text skeleton (mnemonic x operand form); a query is non-trivial when its reachability witness fails (assertions are reachable) and it is distinct by skeleton name",
        FUNCS)
