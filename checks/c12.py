"""C12: option setters compose as documented."""
from vflib import core, glue, report


def run(tier, only=None):
    rep = report.Report("C12", tier, "model_checking")
    eng = glue.GlueEngine("C12", tier, stubs=False)
    seq = 4 if tier == "quick" else 8
    r = eng.run("c12.setters", "glue_c12.c", defs=["-DSEQ=%d" % seq], common=("vf_main.c",), unwind=seq + 2)
    rep.add([r])
    return rep.finish(
        {"symbolic_per_query": "start state over all 12 documented states, one call among the five setters with an arbitrary 32-bit option value (STRICT, NASM, SMART and every out-of-range value), a second live instance in an arbitrary state; plus direct sequences of %d arbitrary setter calls from a fresh instance" % seq,
         "explanation_of_induction": "the one-step query starts from every documented state, so sequences of any length follow by induction on the state; sequences up to the stated length are also run directly"},
        ["oracle spec_next: the documented expansions (assemblyline.h / libassemblyline.3 / asmline --help)",
         "instances compared through the option bits the assembler reads (masks taken from /repo/src/common.h); what those bits mean for the emitted code is C11",
         "no stub: the real setters and asm_create_instance run"],
        {"sequence_length": seq, "option_value_range": "all 2^32 int values"},
        "one CBMC query: inductive step over all states x setters x values, frame on a second instance, and direct sequences",
        ["asm_create_instance", "asm_mov_imm", "asm_sib_index_base_swap", "asm_sib_no_base", "asm_sib", "asm_set_all"])
