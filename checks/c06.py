"""C06: a program's code is the concatenation of its lines' code, however it is fed (API layer)."""
from vflib import gluechecks


def run(tier, only=None):
    q = [{"name": "c06.concat_split.k2", "cfile": "glue_c06.c",
          "defs": ["-DKMAX=2", "-DNPROG=1", "-DGBUF=40", "-DLMAX=4", "-DNFIXED=1", "-DSTARTMAX=6"]},
         {"name": "c06.concat_split.k3", "cfile": "glue_c06.c",
          "defs": ["-DKMAX=3", "-DNPROG=1", "-DGBUF=48", "-DLMAX=3", "-DNFIXED=1", "-DSTARTMAX=4"], "timeout": 1500}]
    if tier != "quick":
        q.append({"name": "c06.concat_split.k4", "cfile": "glue_c06.c",
                  "defs": ["-DKMAX=4", "-DNPROG=1", "-DGBUF=56", "-DLMAX=3", "-DNFIXED=1", "-DSTARTMAX=4"], "timeout": 3600})
        q.append({"name": "c06.concat_split.room", "cfile": "glue_c06.c",
                  "defs": ["-DKMAX=2", "-DNPROG=1", "-DGBUF=40", "-DLMAX=4", "-DSTARTMAX=40"], "timeout": 3600})
    return gluechecks.run_queries(
        "C06", tier, q,
        "program of up to K abstract lines (skip or instruction of arbitrary length <= LMAX and arbitrary bytes), start offset, all 12 option combinations, arbitrary prior buffer contents, arbitrary split point at a line boundary",
        {"K": "2..3 (thorough 4)", "LMAX": "3..4 signature bytes per instruction in these content queries", "start_offset": "0..6",
         "outside": "line content vs line-alone equality for real instruction text is the ENC pair family (C06 query C, DESIGN.md), not this API-layer query"},
        "one CBMC query per K: one call vs. two calls split at a symbolic line boundary, on two instances",
        ["the only state assemble_all carries between lines is (text pointer, buffer position): both are symbolic here"], only)
