"""C06: a program's code is the concatenation of its lines' code, however it is fed."""
import fnmatch
import os

from vflib import core, enc, families, gluechecks, glue, report

ALONE_SRC = r'''
#include <assemblyline.h>
#include <stdio.h>
#include <string.h>
int main(int argc, char **argv) {
  static unsigned char ref[64]; int reflen = -1;
  for (int mv = 0; mv < 3; mv++) for (int sw = 0; sw < 2; sw++) for (int nb = 0; nb < 2; nb++) {
    unsigned char buf[64]; memset(buf, 0, sizeof buf);
    assemblyline_t al = asm_create_instance(buf, 64);
    asm_mov_imm(al, mv); asm_sib_index_base_swap(al, sw); asm_sib_no_base(al, nb);
    char line[200]; snprintf(line, sizeof line, "%s\n", argv[1]);
    if (asm_assemble_str(al, line) != 0) { printf("REJECTED\n"); return 0; }
    int n = asm_get_offset(al);
    if (reflen < 0) { reflen = n; memcpy(ref, buf, n); }
    else if (n != reflen || memcmp(ref, buf, n)) { printf("MODE-DEPENDENT\n"); return 0; }
    asm_destroy_instance(al);
  }
  for (int i = 0; i < reflen; i++) printf("%02x", ref[i]);
  printf("\n");
  return 0;
}
'''


def run(tier, only=None):
    quick = tier == "quick"
    q = [{"name": "c06.concat_split.k2", "cfile": "glue_c06.c",
          "defs": ["-DKMAX=2", "-DNPROG=1", "-DGBUF=40", "-DLMAX=4", "-DNFIXED=1", "-DSTARTMAX=6"]},
         {"name": "c06.concat_split.k3", "cfile": "glue_c06.c",
          "defs": ["-DKMAX=3", "-DNPROG=1", "-DGBUF=48", "-DLMAX=3", "-DNFIXED=1", "-DSTARTMAX=4"], "timeout": 1500}]
    if not quick:
        q.append({"name": "c06.concat_split.k4", "cfile": "glue_c06.c",
                  "defs": ["-DKMAX=4", "-DNPROG=1", "-DGBUF=56", "-DLMAX=3", "-DNFIXED=1", "-DSTARTMAX=4"], "timeout": 3600})
        q.append({"name": "c06.concat_split.room", "cfile": "glue_c06.c",
                  "defs": ["-DKMAX=2", "-DNPROG=1", "-DGBUF=40", "-DLMAX=4", "-DSTARTMAX=40"], "timeout": 3600})
    rep = report.Report("C06", tier, "model_checking")
    # --- API layer with abstract lines ---------------------------------
    ge = glue.GlueEngine("C06", tier)
    gq = [x for x in q if not only or fnmatch.fnmatch(x["name"], only)]

    def gjob(x):
        uw = dict(gluechecks.UW)
        return ge.run(x["name"], x["cfile"], defs=x["defs"], unwind=20, unwindset=uw, timeout=x.get("timeout"))
    # --- real lines in context: a concrete line followed by a skeleton line in one call ---
    eng = enc.EncEngine("C06", tier)
    drv = os.path.join(eng.wd, "alone.c")
    with open(drv, "w") as f:
        f.write(ALONE_SRC)
    exe = core.build_native(eng.wd, "alone", [drv] + core.repo_sources())

    def alone(text):
        rc, out, err, _, _ = core.run([exe, text], timeout=10, limit=False)
        out = out.strip()
        if rc != 0 or not out or not all(c in "0123456789abcdef" for c in out):
            return None
        return bytes.fromhex(out)
    sks = families.c06_context_families(quick, alone)
    if only:
        sks = [s for s in sks if fnmatch.fnmatch(s.name, only)]
    # one pool: the API-layer queries (long) first, then the context pairs
    rep.add(core.pmap_mixed([(gjob, x) for x in gq] + [(lambda sk: eng.run_family([sk])[0], sk) for sk in sks]))
    return rep.finish(
        {"symbolic_per_query": "API layer: program of up to K abstract lines (skip or instruction of arbitrary length and bytes), start offset, all 12 option combinations, arbitrary prior buffer contents, arbitrary split point at a line boundary. Context: a concrete first line (14 encoding classes) followed in the same call by a skeleton line with symbolic registers/numbers/options; the first line's bytes are those it yields alone (computed natively, identical under all options) and the second line decodes as written",
         "context_lines": families.CONTEXT_LINES, "context_queries": len(sks), "api_queries": [x["name"] for x in gq]},
        glue.GLUE_ASSUMPTIONS + enc.ENC_ASSUMPTIONS[:5],
        {"K": "2..3 (thorough 4)", "context_pairs": len(sks), "outside": "programs of more than two real lines in the context family (the API-layer query is inductive over lines: the only state carried between lines is the text pointer and the buffer position; the context family checks that no per-line encoder state survives from one line to the next)"},
        "CBMC queries: one call vs. two calls split at a symbolic line boundary on abstract lines; ordered pairs (concrete line, skeleton line) through the whole real pipeline",
        gluechecks.FUNCS + ["str_to_instr", "line_to_instr", "encode_operands", "assemble_asm"])
