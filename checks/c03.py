"""C03: see properties.jsonl."""
import fnmatch
from vflib import core, enc, families, report
from checks.c01 import FUNCS

FUNCS2 = FUNCS + ["mem_tok", "find_add_mem", "find_mem_const", "get_index_reg", "copy_index_reg", "check_sib_disp",
                  "get_mod_disp", "process_neg_disp", "encode_mem", "encode_two_opds", "encode_three_opds",
                  "encode_special_opd", "auto_set_operand", "auto_set_byte", "assemble_mem_const", "assemble_VEX"]


def run(tier, only=None):
    rep = report.Report("C03", tier, "model_checking")
    eng = enc.EncEngine("C03", tier)
    sks = families.c03_families(tier == "quick")
    if tier == "quick":
        # per-change tier: 'and'/'cmp' memory destinations go through the same rows and code as 'add' (kept in full)
        sks = [s for s in sks if not (s.name.split(".")[1] in ("and", "cmp") and ".m_" in s.name and not s.name.endswith(".neghex"))]
        # decimal spellings of the memory-destination forms are the subject of C16's number-base pairs
        sks = [s for s in sks if not (s.name.endswith(".dec") and ".m_" in s.name and s.name.split(".")[1] in ("test", "mov", "add"))]
    if only:
        sks = [s for s in sks if fnmatch.fnmatch(s.name, only)]
    rep.add(eng.run_family(sks))
    for k, ok, r in eng.confirm_known(sks):
        rep.known(k, ok, r)
    return rep.finish(
        {"skeleton_count": len(sks), "skeletons_sample": [s.name for s in sks[:40]],
         "classes": sorted({s.meta.get("class", s.family) for s in sks}),
         "symbolic_per_query": "base and index over all 16 registers of 64- and 32-bit address size (same size for both), displacement magnitude over the whole representable range of its sign, register operands over their files and widths, all 12 option combinations"},
        enc.ENC_ASSUMPTIONS + ["address equivalence: decoded and written operand compared as linear forms base+index*scale+disp (per-register coefficients and displacement equal, modulo 2^32 under 0x67)",
                               "STRICT swap with a written rsp/esp index: the literal SIB encoding (index=100b) is accepted, as documented"],
        {"unwind_default": 24, "unwindset": eng.uw, "start_offset": 3, "displacement": "|d| <= 0x7fffffff (+) / 0x80000000 (-)",
         "outside": "undocumented syntaxes, 16-bit addressing, RIP-relative, segment overrides, spellings other than the placeholder text"},
        "one CBMC query per (memory-taking form x memory shape x scale x keyword); non-trivial when the reachability witness fails; distinct by skeleton name",
        FUNCS2)
